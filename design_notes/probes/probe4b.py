import sys, os, collections, shutil
sys.path.insert(0,'/tmp/w')
from probe import *
import src.parsers.xmap_reader as xr
captured={}
orig_write=xr.XmapReader.writeAlignments
def mon_write(self,file,results,args):
    captured[os.path.basename(file.name)]=list(results.rows)
    return orig_write(self,file,results,args)
xr.XmapReader.writeAlignments=mon_write
from src.alignment.alignment_position import AlignedPair
def segpairs(row): return [[(p.reference.siteId,p.query.siteId) for p in s.positions if isinstance(p,AlignedPair)] for s in row.segments]

def body(path):
    return [l for l in open(path) if not l.startswith('#')] if os.path.exists(path) else None
def recs(path):
    return parse_xmap(path) if os.path.exists(path) else None
def strip(row): 
    d=dict(row); d.pop('id'); return d
def validm(a, ori):
    rr=[x[0] for x in a]; qq=[x[1] for x in a]
    return all(b>a_ for a_,b in zip(rr,rr[1:])) and all((b>a_) if ori=='+' else (b<a_) for a_,b in zip(qq,qq[1:]))
if __name__=='__main__':
    seed=int(sys.argv[1]); N=int(sys.argv[2])
    os.makedirs(WD,exist_ok=True)
    rng=random.Random(seed); cnt=collections.Counter(); t=time.time()
    for it in range(N):
        nref=rng.randint(1,3); refs={}
        for i in range(nref):
            refs[i+1]=rand_ref(rng, rng.randint(60,250))
        write(WD+'/pr.cmap',[(i,r[-1]+5000,r) for i,r in refs.items()])
        qs={}; lens={}
        for j in range(12):
            kind=rng.choice(['noisy','chimeric','indel','indel'])
            q,L=noisy_query(rng, refs[rng.randint(1,nref)], kind)
            qs[100+j]=q; lens[100+j]=L
        write(WD+'/pq.cmap',[(i,lens[i],q) for i,q in qs.items()])
        maxdiff=rng.choice([100000,100000,20000,5000,500000])
        out={}
        ok=True
        for mode in ('best','separate','joined','all'):
            for f in os.listdir(WD):
                if f.startswith('po_'+mode): os.remove(WD+'/'+f)
            a=Args.parse(['-r',WD+'/pr.cmap','-q',WD+'/pq.cmap','-o',WD+f'/po_{mode}.xmap','-pb','-c','1','-oM',mode,'-diff',str(maxdiff)])
            try: Program(a).run()
            except Exception as ex: cnt['crash:'+type(ex).__name__]+=1; ok=False; break
            out[mode]=[recs(WD+f'/po_{mode}.xmap'),recs(WD+f'/po_{mode}_1.xmap'),recs(WD+f'/po_{mode}_2.xmap')]
        if not ok: continue
        cnt['inputs']+=1
        S=lambda rows:[strip(r) for r in rows]
        if S(out['all'][0])!=S(out['joined'][0]): cnt['all!=joined']+=1; print('all main != joined main',it)
        if S(out['all'][1])!=S(out['separate'][0]): cnt['all_1!=sep']+=1; print('all_1 != separate main',it)
        if S(out['all'][2])!=S(out['separate'][1]): cnt['all_2!=sep_1']+=1; print('all_2 != separate_1',it)
        if any(r['rest']!='False' for r in out['all'][1]) or any(r['rest']!='True' for r in out['all'][2]): cnt['restflag']+=1
        first={r['q']:r for r in out['all'][1]}; second={r['q']:r for r in out['all'][2]}
        joined={r['q']:r for r in out['all'][0]}
        unj=out['joined'][1]
        cnt['first']+=len(first); cnt['second']+=len(second); cnt['joined']+=len(joined)
        # every single pass record either in unjoined or contributes to joined
        for nm,d in (('first',first),('second',second)):
            for q,r in d.items():
                inun = strip(r) in S(unj)
                inj = q in joined
                if inun==inj:
                    cnt['partition-bad']+=1; print('PARTITION',it,nm,q,inun,inj)
        for q,j in joined.items():
            if q not in first or q not in second: cnt['joined-without-parts']+=1; print('JOINED w/o parts',it,q); continue
            f,s=first[q],second[q]
            if f['r']!=s['r'] or f['ori']!=s['ori'] or j['r']!=f['r'] or j['ori']!=f['ori']: cnt['joined-ref-ori']+=1
            gap=max(f['rs'],s['rs'])-min(f['re'],s['re'])
            if gap>maxdiff: cnt['joined-gap']+=1; print('GAP',gap,maxdiff)
            union=sorted(set(f['aln'])|set(s['aln']))
            if not set(j['aln'])<=set(union): cnt['joined-not-subset']+=1; print('NOT SUBSET',it,q)
            if validm(union,f['ori']):
                cnt['union-valid']+=1
                if sorted(j['aln'])!=union:
                    cnt['joined!=union']+=1
                    fr=[r for r in captured['po_all_1.xmap'] if r.queryId==q][0]; sr=[r for r in captured['po_all_2.xmap'] if r.queryId==q][0]
                    fs=[x for x in segpairs(fr) if x]; ss=[x for x in segpairs(sr) if x]
                    missing=set(union)-set(j['aln'])
                    later=set(p for x in fs[1:] for p in x)|set(p for x in ss[1:] for p in x)
                    k='KF-multiseg' if missing<=later else 'OTHER'
                    cnt['joined!=union:'+k]+=1
                    if k=='OTHER': print('JOINED!=UNION OTHER',seed,it,q,f['ori'],'\n F',fs,'\n S',ss,'\n J',j['aln'])
            else: cnt['union-invalid']+=1
        # best mode
        bestq=[r['q'] for r in out['best'][0]]
        if bestq!=sorted(set(bestq)): cnt['best-order/dup']+=1
        if set(bestq)!=set(first)|set(second): cnt['best-missing']+=1; print('BEST ids',it,set(bestq)^(set(first)|set(second)))
        for r in out['best'][0]:
            q=r['q']; sr=strip(r)
            src = 'joined' if (q in joined and sr==strip(joined[q])) else 'first' if (q in first and sr==strip(first[q])) else 'second' if (q in second and sr==strip(second[q])) else 'other'
            cnt['best-src-'+src]+=1
            if src=='other' and cnt['best-src-other']<=6: print('BEST-OTHER',it,q,'\n B',r['aln'],r['conf'],'\n F',first.get(q,{}).get('aln'),first.get(q,{}).get('conf'),'\n S',second.get(q,{}).get('aln'),second.get(q,{}).get('conf'),'\n J',joined.get(q,{}).get('aln'))
    print(dict(cnt),'time',time.time()-t)
