import sys, os, collections
sys.path.insert(0,'/tmp/w')
import probe5
from probe5 import *
import src.alignment.segment_with_resolved_conflicts as swr
cnt=collections.Counter()
orig_chain=swr.SegmentChainer.chain
CTX={}
def chain(self, segments):
    out=orig_chain(self, segments); CTX['chain']=list(out); CTX['pos']=[list(s.positions) for s in out]
    CTX['scores']={id(p):p.score for s in out for p in s.positions}
    return out
swr.SegmentChainer.chain=chain
orig_res=swr.AlignmentSegmentConflictResolver.resolveConflicts
def before_both(p,q): return p.reference.position<q.reference.position and p.query.position<q.query.position
def resolve(self, segments):
    CTX.clear()
    out=orig_res(self, segments)
    if 'chain' not in CTX: return out
    ch=CTX['chain']; segs=out.segments
    cnt['calls']+=1
    if len(segs)!=len(ch): cnt['len']+=1; return out
    trimmed=False
    for k,(c,cpos,o) in enumerate(zip(ch,CTX['pos'],segs)):
        # (a) contiguous sub-run by identity
        if o.positions:
            try: s=next(i for i,p in enumerate(cpos) if p is o.positions[0])
            except StopIteration: cnt['a-notfound']+=1; continue
            if not (len(o.positions)<=len(cpos)-s and all(x is y for x,y in zip(o.positions,cpos[s:s+len(o.positions)]))):
                cnt['a-noncontig']+=1
                if cnt['a-noncontig']<=3: print('NONCONTIG',k,[repr(p) for p in cpos],'->',[repr(p) for p in o.positions])
        if len(o.positions)!=len(cpos): trimmed=True
        # (b)
        if any(CTX['scores'][id(p)]!=p.score for p in o.positions): cnt['b-rescored']+=1
        if abs(o.segmentScore-sum(p.score for p in o.positions))>1e-9: cnt['b-score']+=1
        # (d)
        prs=[p for p in cpos if isinstance(p,AlignedPair)]
        nxt=next((x for x in ch[k+1:k+2] if not x.empty),None); prv=next((x for x in ch[k-1:k] if not x.empty),None) if k>0 else None
        kept=set(map(id,o.positions))
        for p in prs:
            prot = (nxt is None or before_both(p,nxt.startPosition)) and (prv is None or before_both(prv.endPosition,p))
            if prot and id(p) not in kept:
                cnt['d-lost']+=1
                if cnt['d-lost']<=3: print('LOST',k,p,'prev',prv and prv.endPosition,'next',nxt and nxt.startPosition)
    if trimmed: cnt['trimmed']+=1
    return out
swr.AlignmentSegmentConflictResolver.resolveConflicts=resolve
if __name__=='__main__':
    src=open('/tmp/w/probe5.py').read().split("if __name__=='__main__':")[1].replace('\n    ','\n')
    exec(src)
    print(dict(cnt))
