import sys, os, collections, random, copy, operator
sys.path.insert(0,'/repo'); sys.path.insert(0,'/repo/sv')
from write_indel_files import cluster_indels
cnt=collections.Counter(); rng=random.Random(int(sys.argv[1]))
for it in range(int(sys.argv[2])):
    n=rng.randint(0,12); typ=rng.choice(['insertion','deletion'])
    calls=[]
    for i in range(n):
        chrom=rng.randint(1,3); rs=rng.randint(0,300000); re_=rs+rng.randint(1000,50000)
        ln=rng.randint(2001,90000)*(-1 if typ=='insertion' else 1)
        calls.append([typ,chrom,rs,re_,1000+i,rng.randint(0,1000),rng.randint(1000,9000),ln])
    calls=sorted(calls,key=operator.itemgetter(1,3))
    inp=copy.deepcopy(calls)
    out=cluster_indels(calls)
    cnt['calls']+=1
    if calls!=inp: cnt['input-mutated']+=1
    tot=sum(c[8] for c in out)
    ids=[x for c in out for x in str(c[4]).split(',')]
    bad=[]
    if tot!=n: bad.append(('count',tot,n))
    if sorted(ids)!=sorted(str(c[4]) for c in inp): bad.append('ids')
    for c in out:
        members=[m for m in inp if str(m[4]) in str(c[4]).split(',')]
        if any(m[0:2]!=c[0:2] for m in members): bad.append('mixed')
        if any(not(c[2]<=m[2] and m[3]<=c[3]) for m in members): bad.append('cover')
        if c[8]!=len(members): bad.append('count-members')
    if bad:
        cnt['bad']+=1; cnt[str(bad[0])[:20]]+=1
        if cnt['bad']<=3: print(bad, inp, out)
print(dict(cnt))
