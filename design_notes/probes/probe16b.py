import sys, os, collections
sys.path.insert(0,'/tmp/w')
from probe import *
import numpy as np
import src.correlation.optical_map as om
import src.correlation.peaks_selector as psel
cnt=collections.Counter()
CTX={'stack':[], 'byquery':collections.defaultdict(list)}
orig_fp=om.find_peaks
def fp(x,*a,**k):
    r=orig_fp(x,*a,**k)
    if CTX['stack']: CTX['stack'][-1]['fp']=(np.array(x,copy=True), r[0].copy(), r[1]['peak_heights'].copy())
    return r
om.find_peaks=fp
orig_gia=om.OpticalMap.getInitialAlignment
def gia(self, reference, gen, md, pc, reverseStrand=False):
    CTX['stack'].append({})
    out=orig_gia(self, reference, gen, md, pc, reverseStrand)
    c=CTX['stack'].pop()
    if 'fp' in c:
        corr,pos,h=c['fp']
        nz=corr[corr!=0]
        rms=float(np.sqrt(np.mean(nz**2))) if nz.size else float('nan')
        CTX['byquery'][id(self)].append([float(x)-rms for x in h])
        # per-correlation: kept = top pc
        kept=sorted((p.height for p in out.peaks),reverse=True); exp=sorted(map(float,h),reverse=True)[:pc]
        cnt['corr']+=1
        if len(h)>pc: cnt['corr-truncated']+=1
        if not np.allclose(kept,exp,equal_nan=True): cnt['percorr-bad']+=1
    else: CTX['byquery'][id(self)].append([])
    return out
om.OpticalMap.getInitialAlignment=gia
orig_sel=psel.PeaksSelector.selectPeaks
def sel(self, correlations):
    cl=list(correlations)
    out=orig_sel(self, iter(cl))
    cnt['select']+=1
    q=cl[0].query if cl else None
    if q is not None:
        allscores=sorted((s for lst in CTX['byquery'].pop(id(q),[]) for s in lst),reverse=True)
        got=[sp.peak.score for sp in out]
        if got!=sorted(got,reverse=True): cnt['not-desc']+=1
        exp=allscores[:self.count]
        if len(allscores)>self.count: cnt['select-truncated']+=1
        if len(got)!=len(exp) or not np.allclose(got,exp): cnt['select-bad']+=1; print('SELECT BAD',got,exp[:8])
    return out
psel.PeaksSelector.selectPeaks=sel
if __name__=='__main__':
    seed=int(sys.argv[1]); N=int(sys.argv[2]); os.makedirs(WD,exist_ok=True)
    rng=random.Random(seed); t=time.time()
    for it in range(N):
        nref=rng.randint(1,4); refs={}
        for i in range(nref):
            r=rand_ref(rng, rng.randint(60,250))
            if rng.random()<0.5:
                k=rng.randint(5,15); s=rng.randint(0,len(r)-k-1); unit=[p-r[s] for p in r[s:s+k]]; base=r[-1]+25000
                for rep in range(rng.randint(2,5)): r += [base+u for u in unit]; base=r[-1]+rng.randint(21000,39000)
            refs[i+1]=r
        write(WD+'/pr.cmap',[(i,r[-1]+5000,r) for i,r in refs.items()])
        qm=[]
        for j in range(10):
            q,L=noisy_query(rng, refs[rng.randint(1,nref)], rng.choice(['clean','noisy']))
            qm.append((100+j,L,q))
        write(WD+'/pq.cmap',qm)
        CTX['byquery'].clear()
        a=Args.parse(['-r',WD+'/pr.cmap','-q',WD+'/pq.cmap','-o',WD+'/po.xmap','-pb','-c','1','-oM','separate','-p',str(rng.choice([1,2,3,6])),'-md',str(rng.choice([20000,1400,5000]))])
        Program(a).run()
    print(dict(cnt),'time',time.time()-t)
