import sys, os, collections
sys.path.insert(0,'/tmp/w')
from probe3 import *
from src.extensions.extension import Extension
from src.extensions.messages import MultipleAlignmentResultRowsMessage
import src.workflow_coordinator as wcm
PASS={'n':0}
orig_exec=wcm._WorkflowCoordinator.execute
def execute(self, refs, qs):
    PASS['n']+=1
    return orig_exec(self, refs, qs)
wcm._WorkflowCoordinator.execute=execute
class Cands(Extension):
    messageType=MultipleAlignmentResultRowsMessage
    def __init__(self): self.ev=[]
    def handle(self,m):
        q=m.messages[0].query
        self.ev.append((PASS['n'], q.moleculeId, q.shift, len(q.positions), [(mm.alignment.confidence, [(p.reference.siteId,p.query.siteId) for p in mm.alignment.alignedPairs], mm.alignment.referenceId, mm.alignment.reverseStrand, mm.alignment) for mm in m.messages]))
if __name__=='__main__':
    seed=int(sys.argv[1]); N=int(sys.argv[2])
    os.makedirs(WD,exist_ok=True)
    rng=random.Random(seed); cnt=collections.Counter(); t=time.time()
    for it in range(N):
        nref=rng.randint(1,3); refs={}
        for i in range(nref):
            r=rand_ref(rng, rng.randint(60,250))
            if rng.random()<0.4:
                k=rng.randint(5,15); s=rng.randint(0,len(r)-k-1); unit=[p-r[s] for p in r[s:s+k]]; base=r[-1]+5000
                for rep in range(rng.randint(2,4)): r += [base+u for u in unit]; base=r[-1]+rng.randint(3000,9000)
            refs[i+1]=r
        reflen={i:r[-1]+5000 for i,r in refs.items()}
        write(WD+'/pr.cmap',[(i,reflen[i],r) for i,r in refs.items()])
        qs={}; lens={}
        for j in range(12):
            q,L=noisy_query(rng, refs[rng.randint(1,nref)], rng.choice(['clean','noisy','noisy','chimeric','indel']))
            qs[100+j]=q; lens[100+j]=L
        write(WD+'/pq.cmap',[(i,lens[i],q) for i,q in qs.items()])
        pc=rng.choice([1,3,6]); P=dict(sp=1000,dp=1.0,su=-250,d=1500,ms=1000,bs=1200)
        for f in os.listdir(WD):
            if f.startswith('po'): os.remove(WD+'/'+f)
        ext=Cands(); PASS['n']=0
        a=Args.parse(['-r',WD+'/pr.cmap','-q',WD+'/pq.cmap','-o',WD+'/po.xmap','-pb','-c','1','-oM','separate','-p',str(pc)])
        Program(a,[ext]).run()
        first={r['q']:r for r in parse_xmap(WD+'/po.xmap')}
        rows=parse_xmap(WD+'/po.xmap')
        if [r['q'] for r in rows]!=sorted(set(r['q'] for r in rows)): cnt['dup/order']+=1
        seen=set()
        for (ps,qid,shift,npos,cands) in ext.ev:
            if ps!=1: cnt['pass2-events']+=1; continue
            cnt['q-events']+=1; seen.add(qid)
            if len(cands)>pc: cnt['too-many-cands']+=1
            ne=[c for c in cands if c[1]]
            for c in ne:
                e=check_c04(c[4],refs,qs,P,round(c[0],2))
                cnt['cand-c04']+=1
                if e: cnt['cand-c04-bad']+=1; print('CAND C04',e[:3])
            rec=first.get(qid)
            if not ne:
                if rec: cnt['record-without-cand']+=1
                continue
            best=max(c[0] for c in ne)
            if rec is None:
                if best>0: cnt['missing-record']+=1; print('MISSING',seed,it,qid,[(c[0],len(c[1])) for c in cands])
                else: cnt['nonpositive-best-no-record']+=1
                continue
            if abs(rec['conf']-round(best,2))>0.011: cnt['not-best']+=1; print('NOTBEST',seed,it,qid,rec['conf'],[c[0] for c in cands])
            elif not any(abs(c[0]-best)<1e-9 and sorted(c[1])==sorted(rec['aln']) for c in ne): cnt['best-content']+=1
            else: cnt['ok']+=1
            if len([c for c in ne if abs(c[0]-best)<1e-9])>1: cnt['ties']+=1
        if set(first)-seen: cnt['record-without-event']+=1
        # M-pool equality
        b1=[l for l in open(WD+'/po.xmap') if not l.startswith('#')]
        wcm.p_imap=__import__('p_tqdm').p_imap
        a=Args.parse(['-r',WD+'/pr.cmap','-q',WD+'/pq.cmap','-o',WD+'/pp.xmap','-pb','-c','3','-oM','separate','-p',str(pc)])
        Program(a).run()
        wcm.p_imap=serial_imap
        b2=[l for l in open(WD+'/pp.xmap') if not l.startswith('#')]
        if b1!=b2: cnt['serial!=pool']+=1
        else: cnt['serial==pool']+=1
    print(dict(cnt),'time',time.time()-t)
