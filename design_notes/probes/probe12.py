import sys, os, itertools, collections, random
sys.path.insert(0,os.environ.get('REPO','/repo'))
from src.alignment.aligner import AlignerEngine
from src.alignment.alignment_position import AlignedPair, NotAlignedQueryPosition, NotAlignedReferencePosition
from src.correlation.optical_map import OpticalMap
cnt=collections.Counter()
def check(R,Q,start,end,rev,d):
    eng=AlignerEngine(d)
    out=eng.align(R,Q,start,end,rev)
    cnt['calls']+=1
    n=len(Q.positions)
    if rev: qlab=[(n+Q.shift-i, Q.length-1-p) for i,p in enumerate(Q.positions[::-1])]
    else: qlab=[(1+Q.shift+i,p) for i,p in enumerate(Q.positions)]
    rlab=[(i+1,p) for i,p in enumerate(R.positions) if start-d<=p<=end+d]
    qd=dict(qlab); rd=dict(rlab)
    seenq=collections.Counter(); seenr=collections.Counter(); pairs=[]
    absp=[]
    for p in out:
        absp.append(p.absolutePosition)
        if isinstance(p,AlignedPair):
            seenq[p.query.siteId]+=1; seenr[p.reference.siteId]+=1; pairs.append(p)
            if p.reference.siteId not in rd or rd[p.reference.siteId]!=p.reference.position: return 'pair ref label wrong'
            if qd.get(p.query.siteId)!=p.query.position: return 'pair q label wrong'
            sh=p.query.position-(p.reference.position-start)
            if sh!=p.queryShift: return 'shift'
            if abs(sh)>d: return 'beyond d'
        elif isinstance(p,NotAlignedQueryPosition): seenq[p.query.siteId]+=1
        elif isinstance(p,NotAlignedReferencePosition): seenr[p.reference.siteId]+=1
        else: return 'type'
    if sorted(seenq)!=sorted(qd) or any(v!=1 for v in seenq.values()): return 'query partition'
    if sorted(seenr)!=sorted(rd) or any(v!=1 for v in seenr.values()): return 'ref partition'
    if absp!=sorted(absp): return 'order'
    ps=sorted(pairs,key=lambda p:p.reference.position)
    for a,b in zip(ps,ps[1:]):
        if not (a.query.position<=b.query.position): return 'crossing'
        if a.query.position==b.query.position and ((a.query.siteId>b.query.siteId)!=rev): return 'crossing-tie'
    # mutual strict nearest
    for rs,rp in rlab:
        for qs,qp in qlab:
            dist=abs(qp-(rp-start))
            if dist>d: continue
            if all(abs(qp2-(rp-start))>dist for qs2,qp2 in qlab if qs2!=qs) and all(abs(qp-(rp2-start))>dist for rs2,rp2 in rlab if rs2!=rs):
                if not any(p.reference.siteId==rs and p.query.siteId==qs for p in pairs): return 'mutual nearest unpaired'
    if pairs: cnt['withpairs']+=1
    return None
# exhaustive small lattice
G=6
for d in (0,1,2):
  for nr in range(0,4):
    for rpos in itertools.combinations_with_replacement(range(G),nr):
      for nq in range(1,4):
        for qpos in itertools.combinations_with_replacement(range(G-1),nq):
          for start in (-1,0,2):
            for rev in (False,True):
              for shift in (0,3):
                R=OpticalMap(1,G+2,list(rpos)); Q=OpticalMap(2,qpos[-1]+1 if True else G,list(qpos),shift)
                e=check(R,Q,start,start+Q.length,rev,d)
                if e:
                    cnt[e]+=1
                    if cnt[e]<=3: print(e,rpos,qpos,start,rev,d,shift)
print(dict(cnt))
