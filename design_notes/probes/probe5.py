import sys, os, collections
sys.path.insert(0,'/tmp/w')
from probe import *
from src.workflow_coordinator_factory import WorkflowCoordinatorFactory
from src.alignment.aligner import AlignerEngine, Aligner
from src.alignment.alignment_position_scorer import AlignmentPositionScorer
from src.alignment.segment_chainer import SegmentChainer, SequentialityScorer
from src.alignment.segment_with_resolved_conflicts import AlignmentSegmentConflictResolver
from src.alignment.segments_factory import AlignmentSegmentsFactory
from src.correlation.optical_map import OpticalMap
from src.correlation.peak import Peak
from src.alignment.alignment_position import AlignedPair

def mk(d=1500, ms=1000, bs=1200, sj=1, ss=0):
    return Aligner(AlignmentPositionScorer(1000,1.0,-250), AlignmentSegmentsFactory(ms,bs), AlignerEngine(d),
                   AlignmentSegmentConflictResolver(SegmentChainer(SequentialityScorer(sj,ss))))
def pairs(seg): return [(p.reference.siteId,p.query.siteId) for p in seg.positions if isinstance(p,AlignedPair)]
if __name__=='__main__':
    seed=int(sys.argv[1]); N=int(sys.argv[2])
    rng=random.Random(seed); cnt=collections.Counter(); t=time.time()
    for it in range(N):
        ref=rand_ref(rng, rng.randint(40,120), mean=rng.choice([4000,9000]), mn=rng.choice([500,2000]))
        if rng.random()<0.4:
            k=rng.randint(4,10); s=rng.randint(0,len(ref)-k-1); unit=[p-ref[s] for p in ref[s:s+k]]
            base=ref[-1]+3000
            for rep in range(rng.randint(2,4)):
                ref += [base+u for u in unit]; base=ref[-1]+rng.randint(1000,6000)
        R=OpticalMap(1, ref[-1]+5000, ref)
        n=rng.randint(8,min(40,len(ref)-2)); s=rng.randint(0,len(ref)-n-1); sub=ref[s:s+n]
        stretch=rng.uniform(0.9,1.1)
        q=[]
        for p in sub:
            if rng.random()<0.1: continue
            q.append((p-sub[0])*stretch+rng.gauss(0,200))
            if rng.random()<0.1: q.append((p-sub[0])*stretch+rng.randint(300,3000))
        if rng.random()<0.4 and len(q)>6:
            k=len(q)//2; dd=rng.choice([-1,1])*rng.randint(2000,20000); q=q[:k]+[p+dd for p in q[k:]]
        q=sorted(set(round(max(p,0)) for p in q))
        if len(q)<3: continue
        q=[p-q[0] for p in q]
        rev=rng.random()<0.5
        Q=OpticalMap(7, q[-1]+1, q)  # trimmed
        true_start=sub[0]
        if rev:
            # make query the mirror so that reverse alignment is the true one
            Q=OpticalMap(7, q[-1]+1, sorted(q[-1]-p for p in q))
        d=rng.choice([300,800,1500,3000])
        al=mk(d=d, ms=rng.choice([500,1000,2000]), bs=rng.choice([600,1200,2500]), sj=rng.choice([0,0.5,1,2]), ss=rng.choice([0,1]))
        npk=rng.randint(1,8)
        kind=rng.choice(['ladder','random','dup'])
        if kind=='ladder':
            step=rng.choice([200,500,1000,2000,5000]); c=true_start+rng.randint(-3000,3000)
            pk=[Peak(c+i*step*rng.choice([1,1,-1]), rng.uniform(10,50)) for i in range(npk)]
        elif kind=='random':
            pk=[Peak(true_start+rng.randint(-30000,30000), rng.uniform(10,50)) for i in range(npk)]
        else:
            c=true_start+rng.randint(-500,500); pk=[Peak(c+rng.choice([0,0,100,-100,1400]), rng.uniform(10,50)) for i in range(npk)]
        rng.shuffle(pk)
        try:
            row=al.align(R,Q,pk,rev)
        except Exception as ex:
            cnt['crash:'+type(ex).__name__+str(ex)[:50]]+=1
            if cnt['crash:'+type(ex).__name__+str(ex)[:50]]<3:
                import traceback; traceback.print_exc()
            continue
        cnt['calls']+=1
        ne=[s for s in row.segments if not s.empty]
        cnt['nseg%d'%min(len(ne),5)]+=1
        a=[(p.reference.siteId,p.query.siteId) for p in row.alignedPairs]
        if not a: cnt['emptyrow']+=1; continue
        e=check_c01(dict(aln=a,r=1,q=7,ori='-' if rev else '+'),{1:ref},{7:Q.positions})
        if e:
            cnt['c01']+=1
            if cnt['c01']<=10: print('C01',seed,it,rev,kind,e,'\n  segs',[ (pairs(s),s.peak.position) for s in ne])
    print(dict(cnt),'time',time.time()-t)
