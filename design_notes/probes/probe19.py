import sys, os, collections, random
sys.path.insert(0,os.environ.get('REPO','/repo'))
from src.diagnostic.alignment_comparer import AlignmentComparer, AlignmentRowComparer, AlignmentRowComparisonResultType as T
from src.correlation.bionano_alignment import BionanoAlignment
from src.diagnostic.benchmark_alignment import BenchmarkAlignedPair, BenchmarkAlignmentPosition
cnt=collections.Counter(); rng=random.Random(int(sys.argv[1]))
def mk(q,r,pairs,rev):
    return BionanoAlignment(1,q,r,0,0,0,0,rev,1.0,'',1,1,[BenchmarkAlignedPair(BenchmarkAlignmentPosition(a,0),BenchmarkAlignmentPosition(b,0)) for a,b in pairs])
def rset():
    out=[]
    for _ in range(rng.randint(0,7)):
        q=rng.randint(1,5); r=rng.randint(1,2); n=rng.choice([0,1,3,8,20])
        s=rng.randint(1,10); pairs=[]
        a,b=s,rng.randint(1,10)
        for i in range(n):
            pairs.append((a,b)); 
            if rng.random()<0.15: pairs.append((a+1,b))  # duplicated query label
            a+=rng.randint(1,2); b+=rng.randint(1,2)
        out.append(mk(q,r,pairs,rng.random()<0.5))
    return out
for it in range(int(sys.argv[2])):
    comb=rng.random()<0.5
    c=AlignmentComparer(AlignmentRowComparer(comb))
    A=rset(); B=rset() if rng.random()<0.7 else [mk(a.queryId,a.referenceId,[(p.reference.siteId,p.query.siteId) for p in a.alignedPairs if rng.random()<0.8],a.reverseStrand) for a in A]
    res=c.compare(A,B); cnt['calls']+=1
    ka={(a.queryId,a.referenceId) for a in A}; kb={(a.queryId,a.referenceId) for a in B}
    if res.overlapping+res.nonOverlapping+res.firstOnly+res.secondOnly!=len(ka|kb): cnt['sum']+=1
    if res.firstOnly!=len(ka-kb) or res.secondOnly!=len(kb-ka): cnt['only']+=1
    if len(res.rows)!=len(ka|kb): cnt['rows']+=1
    keys=[(r.queryId,r.referenceId) for r in res.rows]
    if sorted(keys)!=sorted(ka|kb): cnt['keys']+=1; 
    for r in res.rows:
        for v in (r.identity,r.alignment1Coverage,r.alignment2Coverage):
            if not 0<=v<=1: cnt['range']+=1
    for v in (res.avgOverlappingIdentity,res.avgOverlappingAlignment1Coverage,res.avgOverlappingAlignment2Coverage):
        if not 0<=v<=1: cnt['avgrange']+=1
    sw=c.compare(B,A)
    if (sw.firstOnly,sw.secondOnly)!=(res.secondOnly,res.firstOnly): cnt['swap-only']+=1
    if sw.overlapping+sw.nonOverlapping!=res.overlapping+res.nonOverlapping: cnt['swap-both']+=1
    if sw.overlapping!=res.overlapping: cnt['swap-overlap(asym identity)']+=1
    if abs(sw.avgOverlappingAlignment1Coverage-res.avgOverlappingAlignment2Coverage)>1e-9 and sw.overlapping==res.overlapping: cnt['swap-cov']+=1
    self_=c.compare(A,A)
    for r in self_.rows:
        cnt['selfrows']+=1
        if r.type!=T.BOTH: cnt['self-type']+=1
        if r.alignment1.alignedPairs and (r.identity!=1 or r.alignment1Coverage!=1 or r.alignment2Coverage!=1 or r.alignment1ExclusivePairs or r.alignment2ExclusivePairs): cnt['self-bad']+=1
print(dict(cnt))
