import sys
sys.path.insert(0,'/tmp/w')
from probe5 import *
R=OpticalMap(1, 100000, [10000, 20000, 30000, 40000])
Q=OpticalMap(7, 17001, [0, 17000])
al=mk(d=1500, ms=500, bs=1200)
for pk in ([Peak(20000,10),Peak(20000,12)], [Peak(20000,10),Peak(20100,12)],[Peak(20000,10),Peak(20000,12),Peak(20100,12)]):
    segs=[s for p in pk for s in al.getSegments(False,p,Q,R)]
    print('segs', segs)
    ch=al.segmentConflictResolver.segmentChainer.chain(segs)
    print('chain', [(pairs(s),s.segmentScore) for s in ch])
    pr=ch[0].checkForConflicts(ch[1])
    print(type(pr).__name__)
    if hasattr(pr,'leftConflictingSubsegment'): print(pr.leftConflictingSubsegment, pr.rightConflictingSubsegment)
    print('resolved', pr.resolveConflict())
    print('ALIGN', [pairs(s) for s in al.align(R,Q,pk,False).segments])
