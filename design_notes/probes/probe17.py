import sys, os, io, collections, random
sys.path.insert(0,os.environ.get('REPO','/repo'))
from src.parsers.cmap_reader import CmapReader
from src.correlation.optical_map import OpticalMap
cnt=collections.Counter(); rng=random.Random(int(sys.argv[1]))
for it in range(int(sys.argv[2])):
    nm=rng.randint(0,6); ids=rng.sample(range(1,10**rng.randint(1,7)),nm)
    mols={}
    for i in ids:
        n=rng.choice([0,0,1,2,5,30]); pos=sorted(round(rng.uniform(0,10**rng.randint(2,7)),1) for _ in range(n))
        length=round((pos[-1] if pos else 0)+rng.uniform(0,5000),1)
        mols[i]=(length,pos)
    cols=['CMapId','ContigLength','NumSites','SiteID','LabelChannel','Position','StdDev','Coverage','Occurrence']
    extra=rng.random()<0.5
    if extra: cols=cols+['GmeanSNR','lnSNRsd']
    if rng.random()<0.3: # permute columns
        rng.shuffle(cols)
    rows=[]
    for i,(length,pos) in mols.items():
        for k,p in enumerate(pos,1):
            d=dict(CMapId=i,ContigLength=f'{length:.1f}',NumSites=len(pos),SiteID=k,LabelChannel=1,Position=f'{p:.1f}',StdDev='0.0',Coverage='1.0',Occurrence='1.0',GmeanSNR='12.5',lnSNRsd='0.1')
            rows.append('\t'.join(str(d[c]) for c in cols))
        d=dict(CMapId=i,ContigLength=f'{length:.1f}',NumSites=len(pos),SiteID=len(pos)+1,LabelChannel=0,Position=f'{length:.1f}',StdDev='0.0',Coverage='1.0',Occurrence='1.0',GmeanSNR='0',lnSNRsd='0')
        rows.append('\t'.join(str(d[c]) for c in cols))
    if rng.random()<0.6: rng.shuffle(rows)
    text='# CMAP File Version:\t0.1\n# Label Channels:\t1\n#h '+'\t'.join(cols)+'\n#f '+'\t'.join('x' for c in cols)+'\n'+''.join(r+'\n' for r in rows)
    flt=None
    if rng.random()<0.5 and ids: flt=rng.sample(ids,rng.randint(1,len(ids)))+([999999999] if rng.random()<0.3 else [])
    cnt['calls']+=1
    try:
        got=CmapReader().readQueries(io.StringIO(text), flt)
    except Exception as ex:
        cnt['exc:'+type(ex).__name__+str(ex)[:50]]+=1
        if cnt['exc:'+type(ex).__name__+str(ex)[:50]]<=2: print(repr(ex), nm, flt, [(i,len(m[1])) for i,m in mols.items()])
        continue
    exp={i:(int(l),p) for i,(l,p) in mols.items() if p and (flt is None or i in flt)}
    g={m.moleculeId:(m.length,m.positions) for m in got}
    if len(got)!=len(g): cnt['dup-ids']+=1
    if g!=exp:
        cnt['mismatch']+=1
        if cnt['mismatch']<=3: print('MISMATCH',exp,g)
    if [m.moleculeId for m in got]!=sorted(g): cnt['order-not-by-id']+=1
    for m in got:
        t=m.trim(); cnt['trim']+=1
        if t.positions[0]!=0 or len(t.positions)!=len(m.positions) or t.length!=m.positions[-1]-m.positions[0]+1: cnt['trimbad']+=1
        if any(abs((a2-a1)-(b2-b1))>1e-6 for a1,a2,b1,b2 in zip(m.positions,m.positions[1:],t.positions,t.positions[1:])): cnt['trimdist']+=1
        tt=t.trim()
        if tt!=t: cnt['trim-not-idempotent']+=1
print(dict(cnt))
