import sys, os, itertools, collections, math
sys.path.insert(0,os.environ.get('REPO','/repo'))
from src.correlation.vectorise import vectorisePositions, blur
from src.correlation.optical_map import toRelativeGenomicPositions
import numpy as np
cnt=collections.Counter()
for res in (1,2,3,5):
  for n in range(1,5):
    for pos in itertools.combinations_with_replacement(range(0,14),n):
      for start in (-4,-1,0,1,3,7):
        for end in (None,-2,0,2,5,9,13,20):
          cnt['calls']+=1
          try: v=list(vectorisePositions(list(pos),res,start,end))
          except Exception as ex: cnt['exc:'+type(ex).__name__]+=1; continue
          e_eff = end if end is not None else pos[-1]
          exp=[1 if any(start+i*res<=p<start+(i+1)*res for p in pos) else 0 for i in range(len(v))]
          if v!=exp:
              cnt['bits']+=1
              if cnt['bits']<=5: print('BITS',res,pos,start,end,v,exp)
          for p in pos:
              if start<=p<=e_eff and (p-start)//res>=len(v):
                  cnt['uncovered']+=1
                  if cnt['uncovered']<=5: print('UNCOVERED',res,pos,start,end,v)
                  break
for L in range(0,9):
  for bits in itertools.product([0,1],repeat=L):
    for r in range(0,4):
      out=blur(list(bits),r); cnt['blur']+=1
      exp=[1 if any(bits[j] for j in range(max(0,i-r),min(L,i+r+1))) else 0 for i in range(L)]
      if list(out)!=exp: cnt['blurbad']+=1
for res in range(1,12):
  for start in (-7,0,13):
    for p in range(start,start+5*res):
      b=(p-start)//res
      c=toRelativeGenomicPositions(np.array([b]),res,start)[0]
      cnt['conv']+=1
      if abs(c-p)>res/2: cnt['convbad']+=1
      lo=start+b*res; hi=lo+res-1
      if not (abs((c-lo)-(hi-c))<=1): cnt['notcentre']+=1
print(dict(cnt))
