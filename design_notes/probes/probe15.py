import sys, os, collections
sys.path.insert(0,'/tmp/w')
import probe5
from probe5 import *
import src.alignment.segments as sg
import src.alignment.segment_with_resolved_conflicts as swr
from src.alignment.alignment_position import ScoredNotAlignedPosition, NotAlignedQueryPosition

TR={'on':False}
def labels(seg, axis):
    out=[]
    for p in seg.positions:
        if isinstance(p,AlignedPair): out.append(p.query.siteId if axis=='q' else p.reference.siteId)
        elif isinstance(p,ScoredNotAlignedPosition):
            isq=isinstance(p.position,NotAlignedQueryPosition)
            if axis=='q' and isq: out.append(p.position.query.siteId)
            if axis=='r' and not isq: out.append(p.position.reference.siteId)
    return out
orig_check=sg.AlignmentSegment.checkForConflicts
orig_check_e=sg.EmptyAlignmentSegment.checkForConflicts
def mk_check(orig):
    def check(self, other):
        pair=orig(self,other)
        if TR['on']:
            li=TR['lineage'].get(id(self)); ri=TR['lineage'].get(id(other))
            ev={'l':li,'r':ri,'type':type(pair).__name__}
            if isinstance(pair, sg._SegmentPairWithConflict):
                axis='r' if pair.leftConflictingSubsegment.peak.position>pair.rightConflictingSubsegment.peak.position else 'q'
                ev['axis']=axis; ev['L']=labels(pair.leftConflictingSubsegment,axis); ev['R']=labels(pair.rightConflictingSubsegment,axis)
            TR['events'].append(ev)
            o=pair.resolveConflict
            def res():
                a,b=o()
                if li is not None: TR['lineage'][id(a)]=li
                if ri is not None: TR['lineage'][id(b)]=ri
                TR['keep'].extend([a,b])
                return a,b
            pair.resolveConflict=res
        return pair
    return check
sg.AlignmentSegment.checkForConflicts=mk_check(orig_check)
sg.EmptyAlignmentSegment.checkForConflicts=mk_check(orig_check_e)
orig_chain=swr.SegmentChainer.chain
def chain(self, segments):
    out=orig_chain(self, segments)
    if TR['on']:
        TR['chain']=list(out)
        for i,s in enumerate(out): TR['lineage'][id(s)]=i
    return out
swr.SegmentChainer.chain=chain
orig_res=swr.AlignmentSegmentConflictResolver.resolveConflicts
cnt=collections.Counter()
def pr(seg): return [(p.reference.siteId,p.query.siteId) for p in seg.positions if isinstance(p,AlignedPair)]
def conflict(a,b,rev):
    # a before b in chain order; conflict if share label or not strictly ordered on both
    for (r1,q1) in a:
        for (r2,q2) in b:
            if r1>=r2: return True
            if (q1<=q2) if rev else (q1>=q2): return True
    return False
def resolve(self, segments):
    TR.update(on=True, lineage={}, events=[], keep=[], chain=None)
    out=orig_res(self, segments)
    TR['on']=False
    cnt['resolve']+=1
    if TR['chain'] is None: return out
    segs=out.segments
    rev=any(s.reverse for s in TR['chain'] if not s.empty and len(s.alignedPositions)>1)
    ne=[(i,pr(s)) for i,s in enumerate(segs) if pr(s)]
    for x in range(len(ne)):
        for y in range(x+1,len(ne)):
            i,a=ne[x]; j,b=ne[y]
            if conflict(a,b,rev):
                evs=[e for e in TR['events'] if e['l']==i and e['r']==j]
                if not evs: k='KF-A uncompared'
                else:
                    e=evs[-1]
                    if e['type']=='_SegmentPairWithConflict' and len(e['L'])==len(e['R']) and e['L']!=e['R']: k='KF-B offset-lists'
                    elif e['type']=='_SegmentPairWithConflict' and len(e['L'])!=len(e['R']): k='compared-unequal'
                    else: k='OTHER:'+e['type']
                cnt[k]+=1
                if k.startswith('OTHER') or k=='compared-unequal':
                    if cnt[k]<=4: print(k,'rev',rev,i,j,a,b,evs[-1])
    return out
swr.AlignmentSegmentConflictResolver.resolveConflicts=resolve
if __name__=='__main__':
    src=open('/tmp/w/probe5.py').read().split("if __name__=='__main__':")[1].replace('\n    ','\n')
    exec(src)
    print(dict(cnt))
