import sys, os, time, random
sys.path.insert(0, os.environ.get('REPO','/repo'))
from src.args import Args
from src.program import Program
from src.extensions.extension import Extension
from src.extensions.messages import InitialAlignmentMessage, MultipleAlignmentResultRowsMessage
class Jitter(Extension):
    messageType = InitialAlignmentMessage
    def __init__(self, seed, maxms): self.seed=seed; self.maxms=maxms
    def handle(self, m):
        r=random.Random(hash((self.seed, os.getpid(), m.data.query.moleculeId, m.data.reference.moleculeId, m.data.reverseStrand)))
        time.sleep(r.random()*self.maxms/1000)
class Done(Extension):
    messageType = MultipleAlignmentResultRowsMessage
    def __init__(self, path): self.path=path
    def handle(self, m):
        q=m.messages[0].query
        with open(self.path,'a') as f: f.write(f"{time.monotonic_ns()} {os.getpid()} {q.moleculeId} {q.shift} {len(q.positions)}\n")
if __name__=='__main__':
    log=os.environ['VF_LOG']; seed=int(os.environ.get('VF_JSEED','0'))
    Program(Args.parse(sys.argv[1:]), [Jitter(seed, 40), Done(log)]).run()
