import sys, os, collections, traceback
sys.path.insert(0,'/tmp/w')
from probe import *
from src.parsers.xmap_reader import XmapReader
from src.parsers.cmap_reader import CmapReader
from src.parsers.xmap_alignment_pair_parser import XmapAlignmentPairWithDistanceParser
def degenerate_maps(rng, n, forref):
    maps=[]
    for i in range(n):
        kind=rng.choice(['one','two','dup','tiny','normal','normal','long','dense','sparse'])
        if kind=='one': pos=[rng.randint(0,50000)+rng.choice([0,0.5])]
        elif kind=='two': a=rng.randint(0,50000); pos=[a,a+rng.choice([0,1,100,5000,200000])]
        elif kind=='dup': a=rng.randint(0,50000); pos=sorted([a]*rng.randint(2,4)+[a+rng.randint(0,30000) for _ in range(rng.randint(0,5))])
        elif kind=='tiny': pos=sorted(rng.randint(0,1500) for _ in range(rng.randint(2,6)))
        elif kind=='long': pos=rand_ref(rng, rng.randint(200,400))
        elif kind=='dense': pos=sorted(rng.randint(0,100000) for _ in range(rng.randint(50,200)))
        elif kind=='sparse': pos=sorted(rng.randint(0,5000000) for _ in range(rng.randint(3,12)))
        else: pos=rand_ref(rng, rng.randint(10,80))
        length=pos[-1]+rng.choice([0,0.4,1,1000,100000])
        maps.append((i+1 if forref else 100+i, length, [float(p) for p in pos]))
    return maps
if __name__=='__main__':
    seed=int(sys.argv[1]); N=int(sys.argv[2])
    os.makedirs(WD,exist_ok=True)
    rng=random.Random(seed); cnt=collections.Counter(); t=time.time()
    for it in range(N):
        rmaps=degenerate_maps(rng, rng.randint(1,3), True)
        qmaps=degenerate_maps(rng, rng.randint(1,8), False)
        if rng.random()<0.5:
            # plant some normal queries from a ref
            big=max(rmaps,key=lambda m:len(m[2]))
            if len(big[2])>20:
                s=rng.randint(0,len(big[2])-15); sub=big[2][s:s+rng.randint(8,15)]
                qmaps.append((900,sub[-1]-sub[0]+100,[p-sub[0]+50 for p in sub]))
        write(WD+'/pr.cmap',rmaps); write(WD+'/pq.cmap',qmaps)
        mode=rng.choice(['best','separate','joined','all'])
        extra=[]
        if rng.random()<0.5:
            r1=rng.choice([1400,500,3000]); extra+=['-r1',str(r1),'-md',str(rng.choice([r1,20000,5*r1])),'-p',str(rng.choice([1,3,8])),'-pt',str(rng.choice([27,5,1,60])),'-ms',str(rng.choice([1000,300])),'-b1',str(rng.choice([0,1,3])),'-r2',str(rng.choice([100,50,400])),'-b2',str(rng.choice([0,4])),'-ma',str(rng.choice([16000,2000,0]))]
        for f in os.listdir(WD):
            if f.startswith('po'): os.remove(WD+'/'+f)
        a=Args.parse(['-r',WD+'/pr.cmap','-q',WD+'/pq.cmap','-o',WD+'/po.xmap','-pb','-c','1','-oM',mode]+extra)
        cnt['runs']+=1
        try:
            p=Program(a); p.run()
        except BaseException as ex:
            tb=traceback.extract_tb(ex.__traceback__)
            fr=[f for f in tb if '/repo/' in f.filename][-1]
            key=f'RUN {type(ex).__name__}: {str(ex)[:60]} @ {os.path.basename(fr.filename)}:{fr.lineno}'
            cnt[key]+=1
            if cnt[key]==1: print(key, 'seed',seed,'it',it, extra)
            continue
        for fn in [f for f in os.listdir(WD) if f.startswith('po') ]:
            try:
                refs=CmapReader().readReferences(open(WD+'/pr.cmap')); qs=[q.trim() for q in CmapReader().readQueries(open(WD+'/pq.cmap'))]
                for rd in (XmapReader(), XmapReader(XmapAlignmentPairWithDistanceParser(refs,qs))):
                    al=rd.readAlignments(open(WD+'/'+fn))
                cnt['read-ok']+=1
                cnt['read-rows%d'%min(len(al),2)]+=1
            except BaseException as ex:
                tb=traceback.extract_tb(ex.__traceback__)
                fr=[f for f in tb if '/repo/' in f.filename][-1]
                key=f'READ {type(ex).__name__}: {str(ex)[:60]} @ {os.path.basename(fr.filename)}:{fr.lineno}'
                cnt[key]+=1
                if cnt[key]==1: print(key,'seed',seed,'it',it,fn, len(parse_xmap(WD+'/'+fn)))
    for k,v in sorted(cnt.items()): print(v,k)
    print('time',time.time()-t)
