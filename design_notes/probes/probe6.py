import sys, os, collections
sys.path.insert(0,'/tmp/w')
from probe import *
def gen_ref(rng, n, onedec):
    pos=[]; p=rng.randint(1000,30000)
    mean=rng.choice([9000,12000,20000]); mn=rng.choice([2000,2500,4000])
    for _ in range(n):
        pos.append(p); p+= mn + rng.expovariate(1/(mean-mn))
    return [round(x,1) if onedec else float(round(x)) for x in pos]
if __name__=='__main__':
    seed=int(sys.argv[1]); N=int(sys.argv[2])
    os.makedirs(WD,exist_ok=True)
    rng=random.Random(seed); cnt=collections.Counter(); t=time.time()
    for it in range(N):
        onedec=rng.random()<0.5
        ref=gen_ref(rng, rng.randint(60,300), onedec)
        write(WD+'/pr.cmap',[(1,ref[-1]+rng.randint(1,20000),ref)])
        qs={}; truth={}
        for j in range(12):
            n=rng.randint(15,45)
            if len(ref)-n-8<4: n=15
            s=rng.randint(4,len(ref)-n-4); sub=ref[s:s+n]
            off=rng.choice([0,20,rng.randint(0,50000)])+ (rng.choice([0,0.3,0.7]) if onedec else 0)
            trail=rng.choice([0.1,1,rng.randint(1,30000)])
            rev=rng.random()<0.5
            if not rev:
                q=[round(p-sub[0]+off,1) for p in sub]; tr=[(s+1+i,i+1) for i in range(n)]
            else:
                q=sorted(round(sub[-1]-p+off,1) for p in sub); tr=[(s+1+i,n-i) for i in range(n)]
            qs[100+j]=(q,q[-1]+trail); truth[100+j]=(tr,'-' if rev else '+')
        write(WD+'/pq.cmap',[(i,L,q) for i,(q,L) in qs.items()])
        mode=rng.choice(['best','separate','joined','all'])
        for f in os.listdir(WD):
            if f.startswith('po'): os.remove(WD+'/'+f)
        a=Args.parse(['-r',WD+'/pr.cmap','-q',WD+'/pq.cmap','-o',WD+'/po.xmap','-pb','-c','1','-oM',mode])
        res=Program(a).run()
        fn={'best':'po.xmap','separate':'po.xmap','joined':'po_1.xmap','all':'po_1.xmap'}[mode]
        rows={r['q']:r for r in parse_xmap(WD+'/'+fn)}
        for qid,(tr,ori) in truth.items():
            cnt['q']+=1
            r=rows.get(qid)
            if r is None: cnt['missing']+=1; print('MISSING',seed,it,mode,qid,len(tr),ori); continue
            if r['ori']!=ori or r['aln']!=tr or r['hit']!=f'{len(tr)}M':
                cnt['wrong']+=1; print('WRONG',seed,it,mode,qid,ori,r['ori'],len(tr),r['hit'],r['aln'][:3],tr[:3])
    print(dict(cnt),'time',time.time()-t)
