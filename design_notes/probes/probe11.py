import sys, os, collections
sys.path.insert(0,'/tmp/w')
from probe import *
STEP=1400
def lattice_ref(rng,n):
    pos=[]; p=rng.randint(1,20)*STEP
    for _ in range(n):
        pos.append(float(p)); p+=STEP*rng.choice([2,3,4,5,6,8,10,14])
    return pos
if __name__=='__main__':
    seed=int(sys.argv[1]); N=int(sys.argv[2])
    os.makedirs(WD,exist_ok=True)
    rng=random.Random(seed); cnt=collections.Counter(); t=time.time()
    for it in range(N):
        nref=rng.randint(1,2)
        refs={i+1:lattice_ref(rng, rng.randint(60,200)) for i in range(nref)}
        write(WD+'/pr.cmap',[(i,r[-1]+STEP*rng.randint(1,5),r) for i,r in refs.items()])
        qs=[]; 
        for j in range(8):
            ref=refs[rng.randint(1,nref)]
            n=rng.randint(8,40); s=rng.randint(0,len(ref)-n-1); sub=ref[s:s+n]
            noisy=rng.random()<0.7
            q=[]
            for p in sub:
                if noisy and rng.random()<0.12: continue
                q.append(p-sub[0])
                if noisy and rng.random()<0.08: q.append(p-sub[0]+STEP*rng.randint(1,1))
            if noisy and rng.random()<0.4 and len(q)>6:
                k=len(q)//2; dd=STEP*rng.randint(-8,8); q=q[:k]+[p+dd for p in q[k:]]
            q=sorted(set(x for x in q if x>=0))
            if len(q)<3: continue
            off=STEP*rng.randint(0,5)
            q=[x+off for x in q]
            L=q[-1]+STEP*rng.randint(1,3)
            m=sorted(L-x for x in q)
            qs.append((100+2*j,L,q)); qs.append((101+2*j,L,m))
        write(WD+'/pq.cmap',qs)
        d=rng.choice([100,300,650,699])
        for f in os.listdir(WD):
            if f.startswith('po'): os.remove(WD+'/'+f)
        a=Args.parse(['-r',WD+'/pr.cmap','-q',WD+'/pq.cmap','-o',WD+'/po.xmap','-pb','-c','1','-oM','separate','-d',str(d)])
        Program(a).run()
        rows={r['q']:r for r in parse_xmap(WD+'/po.xmap')}
        for (qid,L,q) in qs[::2]:
            N_=len(q); a_=rows.get(qid); b_=rows.get(qid+1)
            cnt['pairs']+=1
            if a_ is None and b_ is None: cnt['both-none']+=1; continue
            if (a_ is None)!=(b_ is None): cnt['one-none']+=1; print('ONE NONE',seed,it,qid, a_ and a_['aln'][:4], b_ and b_['aln'][:4]); continue
            ma=[(r,N_+1-k) for r,k in a_['aln']]
            ok = a_['ori']!=b_['ori'] and a_['r']==b_['r'] and sorted(ma)==sorted(b_['aln']) and abs(a_['conf']-b_['conf'])<0.011
            if not ok:
                cnt['mismatch']+=1
                if cnt['mismatch']<=5: print('MISMATCH',seed,it,qid,d,a_['ori'],b_['ori'],a_['conf'],b_['conf'],'\n A',a_['aln'],'\n B',b_['aln'])
            else: cnt['ok']+=1; cnt['ok-'+a_['ori']]+=1
    print(dict(cnt),'time',time.time()-t)
