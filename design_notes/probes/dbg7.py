import sys, os
sys.path.insert(0,'/tmp/w')
from probe7 import *
seed=int(sys.argv[1]); target=int(sys.argv[2])
rng=random.Random(seed)
os.makedirs(WD,exist_ok=True)
src=open('/tmp/w/probe7.py').read().split("for it in range(N):")[1].split("        for f in os.listdir(WD):")[0]
exec("for it in range(target+1):"+src)
print(mode, extra)
for f in os.listdir(WD):
    if f.startswith('po'): os.remove(WD+'/'+f)
a=Args.parse(['-r',WD+'/pr.cmap','-q',WD+'/pq.cmap','-o',WD+'/po.xmap','-pb','-c','1','-oM',mode]+extra)
import traceback
try:
    Program(a).run()
except Exception: traceback.print_exc()
print('REFS', [(m[0], m[1], len(m[2]), m[2][0], m[2][-1]) for m in rmaps])
print('QS', [(m[0], m[1], len(m[2]), round(m[2][-1]-m[2][0])) for m in qmaps])
