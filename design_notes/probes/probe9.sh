set -e
cd /tmp/w/s81
for c in 1 2 3 5 8 16; do
  /usr/bin/time -f "c=$c %es" /venv/bin/python -m src.program -r r0.cmap -q q0.cmap -o c$c.xmap -pb -c $c -oM all 2>&1 | tail -1
done
for c in 2 3 5 8 16; do
  for suf in "" _1 _2; do
    cmp <(grep -v '^# coma' c1$suf.xmap) <(grep -v '^# coma' c$c$suf.xmap) && echo same $c $suf
  done
done
