import sys, os, collections
sys.path.insert(0,'/tmp/w')
from probe import *
def write_shuffled(path, maps, rng, shuffle_rows=True, extra_cols=False):
    rows=[]
    for mid,length,pos in maps:
        n=len(pos)
        for i,p in enumerate(pos,1): rows.append(f"{mid}\t{length:.1f}\t{n}\t{i}\t1\t{p:.1f}\t0.0\t1.0\t1.0\n")
        rows.append(f"{mid}\t{length:.1f}\t{n}\t{n+1}\t0\t{length:.1f}\t0.0\t1.0\t1.0\n")
    if shuffle_rows: rng.shuffle(rows)
    open(path,'w').write(HEADER+''.join(rows))
def run(r,q,o,extra=[]):
    for f in os.listdir(WD):
        if f.startswith(os.path.basename(o)[:-5]): os.remove(WD+'/'+f)
    a=Args.parse(['-r',r,'-q',q,'-o',o,'-pb','-c','1']+extra); Program(a).run()
    out={}
    for suf in ('','_1','_2'):
        fn=o[:-5]+suf+'.xmap'
        if os.path.exists(fn):
            for row in parse_xmap(fn):
                d=dict(row); d.pop('id'); out.setdefault((suf,row['q']),[]).append(d)
    return out
if __name__=='__main__':
    seed=int(sys.argv[1]); N=int(sys.argv[2])
    os.makedirs(WD,exist_ok=True)
    rng=random.Random(seed); cnt=collections.Counter(); t=time.time()
    for it in range(N):
        nref=rng.randint(2,4)
        refs={i+1:rand_ref(rng, rng.randint(60,200)) for i in range(nref)}
        rmaps=[(i,r[-1]+5000,r) for i,r in refs.items()]
        qmaps=[]
        for j in range(10):
            kind=rng.choice(['clean','noisy','chimeric','indel'])
            q,L=noisy_query(rng, refs[rng.randint(1,nref)], kind)
            qmaps.append((100+j,L,q))
        mode=rng.choice(['best','separate','joined','all'])
        write(WD+'/r0.cmap',rmaps); write(WD+'/q0.cmap',qmaps)
        base=run(WD+'/r0.cmap',WD+'/q0.cmap',WD+'/o0.xmap',['-oM',mode])
        cnt['base-records']+=len(base)
        # 1 permuted + row-shuffled queries & refs
        qm2=qmaps[:]; rng.shuffle(qm2); rm2=rmaps[:]; rng.shuffle(rm2)
        write_shuffled(WD+'/r1.cmap',rm2,rng); write_shuffled(WD+'/q1.cmap',qm2,rng)
        o1=run(WD+'/r1.cmap',WD+'/q1.cmap',WD+'/o1.xmap',['-oM',mode])
        if o1!=base: cnt['perm-diff']+=1; print('PERM DIFF',seed,it,mode,[k for k in set(base)|set(o1) if base.get(k)!=o1.get(k)])
        # 2 subset of queries, physically vs -qId
        ids=sorted(rng.sample([m[0] for m in qmaps], rng.randint(1,6)))
        write(WD+'/q2.cmap',[m for m in qmaps if m[0] in ids])
        o2=run(WD+'/r0.cmap',WD+'/q2.cmap',WD+'/o2.xmap',['-oM',mode])
        o3=run(WD+'/r0.cmap',WD+'/q0.cmap',WD+'/o3.xmap',['-oM',mode,'-qId']+[str(i) for i in ids])
        exp={k:v for k,v in base.items() if k[1] in ids}
        if o2!=exp: cnt['subset-diff']+=1; print('SUBSET DIFF',seed,it,mode)
        if o3!=o2: cnt['qid-diff']+=1; print('QID DIFF',seed,it,mode)
        # 3 -rId vs physically restricted refs
        rids=sorted(rng.sample(list(refs), rng.randint(1,nref)))
        write(WD+'/r4.cmap',[m for m in rmaps if m[0] in rids])
        o4=run(WD+'/r4.cmap',WD+'/q0.cmap',WD+'/o4.xmap',['-oM',mode])
        o5=run(WD+'/r0.cmap',WD+'/q0.cmap',WD+'/o5.xmap',['-oM',mode,'-rId']+[str(i) for i in rids])
        if o4!=o5: cnt['rid-diff']+=1; print('RID DIFF',seed,it,mode)
        cnt['inputs']+=1
    print(dict(cnt),'time',time.time()-t)
