import sys, itertools, collections
sys.path.insert(0,'/repo')
from src.alignment.segments_factory import AlignmentSegmentsFactory
from src.alignment.alignment_position import ScoredAlignedPair, AlignedPair, ScoredNotAlignedPosition, NotAlignedReferencePosition
from src.correlation.optical_map import PositionWithSiteId
from src.correlation.peak import Peak
def mkpos(scores):
    out=[]
    for i,s in enumerate(scores):
        if s>0: out.append(ScoredAlignedPair(AlignedPair(PositionWithSiteId(i+1,i*100),PositionWithSiteId(i+1,i*100),0),s))
        else: out.append(ScoredNotAlignedPosition(NotAlignedReferencePosition(PositionWithSiteId(i+1,i*100)),s))
    return out
def model(scores, ms, bs):
    runs=[]; i=0; n=len(scores)
    while i<n:
        # start run at i
        pref=0; best=0; bestend=None; j=i
        while j<n:
            pref+=scores[j]
            if pref<=max(0,best-bs): break
            j+=1
            if pref>best: best=pref; bestend=j
        if bestend is not None and best>=ms: runs.append((i,bestend))
        i=j+1
    return runs
def idx(seg, pos):
    if not seg.positions: return None
    s=next(k for k,p in enumerate(pos) if p is seg.positions[0])
    assert all(a is b for a,b in zip(seg.positions,pos[s:s+len(seg.positions)]))
    return (s,s+len(seg.positions))
cnt=collections.Counter()
alpha=[1000,600,300,-250,-700]
for ms,bs in [(1000,1200),(1000,600),(600,600),(1600,600),(2000,500),(300,250),(1300,1200)]:
    f=AlignmentSegmentsFactory(ms,bs)
    for L in range(0,8):
        for scores in itertools.product(alpha,repeat=L):
            pos=mkpos(scores)
            segs=f.getSegments(pos,Peak(0,1))
            got=[idx(s,pos) for s in segs if not s.empty]
            exp=model(scores,ms,bs)
            cnt['n']+=1
            if got!=exp:
                cnt[('bad',ms,bs)]+=1
                if cnt[('bad',ms,bs)]<=3: print('MISMATCH',ms,bs,scores,'got',got,'exp',exp)
            if not got and not (len(segs)==1 and segs[0].empty): cnt['emptyrule']+=1
print(dict(cnt))
