import random, io, os, sys, time
sys.path.insert(0, os.environ.get('REPO','/repo'))
HEADER = "# CMAP File Version:\t0.1\n# Label Channels:\t1\n#h CMapId\tContigLength\tNumSites\tSiteID\tLabelChannel\tPosition\tStdDev\tCoverage\tOccurrence\n#f int\tfloat\tint\tint\tint\tfloat\tfloat\tfloat\tfloat\n"
def cmap_text(maps):
    # maps: list of (id, length, positions)
    out = [HEADER]
    for mid, length, pos in maps:
        n = len(pos)
        for i, p in enumerate(pos, 1):
            out.append(f"{mid}\t{length:.1f}\t{n}\t{i}\t1\t{p:.1f}\t0.0\t1.0\t1.0\n")
        out.append(f"{mid}\t{length:.1f}\t{n}\t{n+1}\t0\t{length:.1f}\t0.0\t1.0\t1.0\n")
    return "".join(out)
def rand_ref(rng, n, mean=9000, mn=2000):
    pos=[]; p=rng.randint(1000,20000)
    for _ in range(n):
        pos.append(p); p += mn + int(rng.expovariate(1/(mean-mn)))
    return pos
def write(path, maps):
    with open(path,'w') as f: f.write(cmap_text(maps))
