import sys
sys.path.insert(0,'/tmp/w')
import probe5
from probe5 import *
import src.alignment.segment_with_resolved_conflicts as swr
# trace pairwise
def traced(self, segments):
    chained = self.segmentChainer.chain(segments)
    print(' CHAIN', [(pairs(s), s.peak.position, round(s.segmentScore)) for s in chained])
    for i0 in range(len(chained)-1):
        i1=i0+1
        pair = chained[i0].checkForConflicts(chained[i1])
        print('  step',i0,type(pair).__name__, end=' ')
        if hasattr(pair,'leftConflictingSubsegment'): print('L',pair.leftConflictingSubsegment.positions,'R',pair.rightConflictingSubsegment.positions, end=' ')
        chained[i0], chained[i1] = pair.resolveConflict()
        print('->', pairs(chained[i0]), pairs(chained[i1]))
    return chained
swr.AlignmentSegmentConflictResolver._AlignmentSegmentConflictResolver__pairAndResolveConflicts = traced
seed=int(sys.argv[1]); target=int(sys.argv[2])
rng=random.Random(seed)
# replicate generator loop from probe5 up to target iteration
src=open('/tmp/w/probe5.py').read().split("for it in range(N):")[1]
body="for it in range(target+1):"+src.split("        try:\n            row=al.align")[0]
import io, contextlib
exec(body)
print('kind',kind,'rev',rev,'d',al.alignmentEngine.maxDistance,'ms',al.segmentsFactory.minScore,'bs',al.segmentsFactory.breakSegmentThreshold,'peaks',[p.position for p in pk])
row=al.align(R,Q,pk,rev)
print([pairs(s) for s in row.segments])
