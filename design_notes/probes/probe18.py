import sys, os, collections
sys.path.insert(0,'/tmp/w')
from probe3 import *
from src.parsers.xmap_reader import XmapReader
from src.parsers.cmap_reader import CmapReader
from src.parsers.xmap_alignment_pair_parser import XmapAlignmentPairWithDistanceParser
if __name__=='__main__':
    seed=int(sys.argv[1]); N=int(sys.argv[2])
    os.makedirs(WD,exist_ok=True)
    rng=random.Random(seed); cnt=collections.Counter(); t=time.time()
    for it in range(N):
        nref=rng.randint(1,3); refs={i+1:rand_ref(rng, rng.randint(60,250)) for i in range(nref)}
        write(WD+'/pr.cmap',[(i,r[-1]+5000.7,r) for i,r in refs.items()])
        qs={}; lens={}
        for j in range(rng.choice([1,2,12])):
            q,L=noisy_query(rng, refs[rng.randint(1,nref)], rng.choice(['clean','noisy','chimeric','indel']))
            qs[100+j]=q; lens[100+j]=L
        write(WD+'/pq.cmap',[(i,lens[i],q) for i,q in qs.items()])
        for f in os.listdir(WD):
            if f.startswith('po'): os.remove(WD+'/'+f)
        mode=rng.choice(['best','separate','joined','all'])
        a=Args.parse(['-r',WD+'/pr.cmap','-q',WD+'/pq.cmap','-o',WD+'/po.xmap','-pb','-c','1','-oM',mode,'-ms',str(rng.choice([1000,400]))])
        p=Program(a); p.run()
        R=CmapReader().readReferences(open(WD+'/pr.cmap')); Q=[q.trim() for q in CmapReader().readQueries(open(WD+'/pq.cmap'))]
        Rd={m.moleculeId:m for m in R}; Qd={m.moleculeId:m for m in Q}
        for fn in [f for f in os.listdir(WD) if f.startswith('po')]:
            rows=parse_xmap(WD+'/'+fn)
            cnt['files']+=1; cnt['files-n%d'%min(len(rows),2)]+=1
            for which,rd in (('dist',XmapReader(XmapAlignmentPairWithDistanceParser(R,Q))),('plain',XmapReader())):
                al=rd.readAlignments(open(WD+'/'+fn))
                if len(al)!=len(rows): cnt['count']+=1; continue
                for a_,r in zip(al,rows):
                    cnt['recs']+=1
                    ok = a_.alignmentId==r['id'] and a_.queryId==r['q'] and a_.referenceId==r['r'] and a_.reverseStrand==(r['ori']=='-') and a_.cigarString==r['hit'] \
                      and a_.queryStartPosition==int(r['qs']) and a_.queryEndPosition==int(r['qe']) and a_.referenceStartPosition==int(r['rs']) and a_.referenceEndPosition==int(r['re']) \
                      and a_.queryLength==int(r['ql']) and a_.referenceLength==int(r['rl']) and abs(a_.confidence-r['conf'])<1e-9 \
                      and [(p.reference.siteId,p.query.siteId) for p in a_.alignedPairs]==r['aln']
                    if which=='dist':
                        ok = ok and all(p.reference.position==Rd[r['r']].positions[p.reference.siteId-1] and p.query.position==Qd[r['q']].positions[p.query.siteId-1] for p in a_.alignedPairs)
                    if not ok: cnt['bad-'+which]+=1; print('BAD',which,fn,r['id'],vars(a_))
    print(dict(cnt),'time',time.time()-t)
