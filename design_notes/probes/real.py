import sys, os, collections
sys.path.insert(0,'/tmp/w')
from probe3 import *
def parse_cmap(path):
    maps={}; ends={}
    cols=None
    for line in open(path):
        if line.startswith('#h'): cols=line.split()[1:]; continue
        if line.startswith('#') or not line.strip(): continue
        f=line.rstrip('\n').split('\t'); d=dict(zip(cols,f))
        i=int(d['CMapId'])
        if int(d['LabelChannel'])==0: ends[i]=int(float(d['Position']))
        else: maps.setdefault(i,[]).append(float(d['Position']))
    return {i:sorted(p) for i,p in maps.items()}, ends
refs,rl=parse_cmap('/repo/data/NA12878_BSPQI/alignmolvref_contig24_r.cmap')
qs,ql=parse_cmap('/repo/data/NA12878_BSPQI/alignmolvref_contig24_q.cmap')
cnt=collections.Counter()
for row in parse_xmap('/tmp/w/a.xmap'):
    cnt['rows']+=1
    for nm,e in (('c01',check_c01(row,refs,qs)),('c02',check_c02(row,refs,qs,rl)),('c03',check_c03(row))):
        if e: cnt[nm]+=1; print(nm,row['q'],e[:3])
print(dict(cnt), len(qs),'queries')
