import sys, os, math, itertools, collections, random
sys.path.insert(0,os.environ.get('REPO','/repo'))
from src.alignment.segment_chainer import SegmentChainer, SequentialityScorer
from src.alignment.segments import AlignmentSegment, EmptyAlignmentSegment
from src.alignment.alignment_position import ScoredAlignedPair, AlignedPair
from src.correlation.optical_map import PositionWithSiteId
from src.correlation.peak import Peak
def seg(r0,r1,q0,q1,score,rid):
    a=ScoredAlignedPair(AlignedPair(PositionWithSiteId(rid*10+1,r0),PositionWithSiteId(rid*10+1,q0)),score/2)
    b=ScoredAlignedPair(AlignedPair(PositionWithSiteId(rid*10+2,r1),PositionWithSiteId(rid*10+2,q1)),score/2)
    return AlignmentSegment([a,b],score,Peak(0,1),[a,b])
def key(s): return s.startPosition.reference.position+s.endPosition.reference.position+s.startPosition.query.position+s.endPosition.query.position
def total(chain,sc):
    t=sum(s.segmentScore for s in chain)
    for a,b in zip(chain,chain[1:]): t+=sc.getScore(a,b)
    return t
cnt=collections.Counter()
seed=int(sys.argv[1]); N=int(sys.argv[2]); rng=random.Random(seed)
for it in range(N):
    n=rng.randint(1,8); rev=rng.random()<0.5
    sc=SequentialityScorer(rng.choice([0,0.5,1,2]),rng.choice([0,1]))
    segs=[]
    grid=rng.choice([1,100,1000])
    for i in range(n):
        r0=rng.randint(0,60)*grid; L=rng.randint(0,12)*grid; q0=r0+rng.randint(-6,6)*grid; LQ=L+rng.randint(-2,2)*grid
        if LQ<0: LQ=0
        score=rng.choice([1000,1500,3000,8000])
        s=seg(r0,r0+L,q0,q0+LQ,score,i)
        if rev:
            # reverse: siteIds descending along segment: emulate by swapping site ids so that .reverse is True
            a,b=s.positions
            a.query=PositionWithSiteId(b.query.siteId+5,a.query.position); 
            s=AlignmentSegment([a,b],score,Peak(0,1),[a,b])
        segs.append(s)
    ne=rng.randint(0,2); allsegs=segs+[EmptyAlignmentSegment() for _ in range(ne)]; rng.shuffle(allsegs)
    keys=[key(s) for s in segs]
    res=SegmentChainer(sc).chain(allsegs)
    cnt['calls']+=1
    resne=[s for s in res if not s.empty]
    if len([s for s in res if s.empty])!=ne: cnt['empties-lost']+=1
    if any(s.empty for s in res[:len(resne)]): cnt['empties-not-last']+=1
    if len(set(map(id,resne)))!=len(resne) or any(all(s is not x for x in segs) for s in resne): cnt['not-subset']+=1
    ks=[key(s) for s in resne]
    if ks!=sorted(ks): cnt['not-ordered']+=1
    tot=total(resne,sc)
    if tot==-math.inf: cnt['-inf']+=1
    for a,b in zip(resne,resne[1:]):
        j=sc.getScore(a,b)
        if j>0: cnt['join>0']+=1
    if len(set(keys))!=len(keys): cnt['tied-keys-skipped']+=1; continue
    order=sorted(segs,key=key)
    best=-math.inf
    for m in range(1,1<<n):
        sub=[order[i] for i in range(n) if m>>i&1]
        best=max(best,total(sub,sc))
    if abs(best-tot)>1e-6*max(1,abs(best)):
        cnt['suboptimal']+=1
        if cnt['suboptimal']<=5: print('SUBOPT',seed,it,tot,best,n)
    else: cnt['optimal']+=1
    cnt['n%d'%len(resne)]+=1
print(dict(cnt))
