import sys, os, math, collections
sys.path.insert(0,'/tmp/w')
from probe import *
import src.parsers.xmap_reader as xr
from src.alignment.alignment_position import AlignedPair, ScoredNotAlignedPosition, NotAlignedQueryPosition, NotAlignedReferencePosition

captured=[]
orig_write = xr.XmapReader.writeAlignments
def mon_write(self, file, results, args):
    captured.append((file.name, list(results.rows)))
    return orig_write(self, file, results, args)
xr.XmapReader.writeAlignments = mon_write

def replay(hit, first, ori):
    ops=re.findall(r'(\d+)([MDI])',hit)
    if ''.join(n+o for n,o in ops)!=hit: return None
    r,q=first; d=1 if ori=='+' else -1; out=[]
    for n,o in ops:
        for _ in range(int(n)):
            if o=='M': out.append((r,q)); r+=1; q+=d
            elif o=='D': r+=1
            else: q+=d
    return out

def check_c02(row, refs, qs, reflen):
    e=[]
    R=refs[row['r']]; Q=qs[row['q']]; a=row['aln']
    if abs(row['rl']-reflen[row['r']])>0.051: e.append(('RefLen',row['rl'],reflen[row['r']]))
    ql=Q[-1]-Q[0]
    if not (ql-0.051<=row['ql']<=ql+1.051): e.append(('QryLen',row['ql'],ql))
    if abs(row['rs']-R[a[0][0]-1])>0.051: e.append(('RefStart',row['rs'],R[a[0][0]-1]))
    if abs(row['re']-R[a[-1][0]-1])>0.051: e.append(('RefEnd',row['re'],R[a[-1][0]-1]))
    qlabs=[x[1] for x in a]
    if row['ori']=='+':
        es=Q[min(qlabs)-1]-Q[0]; ee=Q[max(qlabs)-1]-Q[0]
        if not row['qs']<=row['qe']: e.append('start>end')
    else:
        es=Q[-1]-Q[min(qlabs)-1]; ee=Q[-1]-Q[max(qlabs)-1]
        if not row['qs']>=row['qe']: e.append('start<end')
    if abs(row['qs']-es)>0.051: e.append(('QryStart',row['qs'],es))
    if abs(row['qe']-ee)>0.051: e.append(('QryEnd',row['qe'],ee))
    return e

def check_c03(row):
    e=[]
    a=row['aln']; hit=row['hit']
    if not hit: return ['empty hit']
    rp=replay(hit,a[0],row['ori'])
    if rp!=a: e.append(('replay',rp[:5] if rp else rp))
    ops=re.findall(r'(\d+)([MDI])',hit)
    if ops[0][1]!='M' or ops[-1][1]!='M': e.append('ends')
    if any(x[1]==y[1] for x,y in zip(ops,ops[1:])): e.append('adjacent')
    return e

def check_c04(rowobj, refs, qs, P, written_conf):
    e=[]
    R=refs[rowobj.referenceId]; Q=qs[rowobj.queryId]; rev=rowobj.reverseStrand
    Q0=[p-Q[0] for p in Q]; last=Q0[-1]
    def qpos(site): return (last-Q0[site-1]) if rev else Q0[site-1]
    tot=0
    for s in rowobj.segments:
        pk=s.peak.position
        seen=set()
        for p in s.positions:
            if isinstance(p, AlignedPair):
                off=qpos(p.query.siteId)-(R[p.reference.siteId-1]-pk)
                if abs(off)>P['d']+1e-6: e.append(('offset',off))
                if abs(off-p.queryShift)>1e-6: e.append(('shift',off,p.queryShift))
                tot+=P['sp']-P['dp']*abs(off)
                k1=('r',p.reference.siteId); k2=('q',p.query.siteId)
                for k in (k1,k2):
                    if k in seen: e.append(('twice',k))
                    seen.add(k)
            else:
                tot+=P['su']
                pp=p.position
                k=('q',pp.query.siteId) if isinstance(pp,NotAlignedQueryPosition) else ('r',pp.reference.siteId)
                if k in seen: e.append(('twice',k))
                seen.add(k)
        prs=[p for p in s.positions if isinstance(p,AlignedPair)]
        if prs:
            rlo,rhi=prs[0].reference.siteId, prs[-1].reference.siteId
            for r in range(min(rlo,rhi),max(rlo,rhi)+1):
                if ('r',r) not in seen: e.append(('unaccounted r',r))
            qlo,qhi=prs[0].query.siteId, prs[-1].query.siteId
            for q in range(min(qlo,qhi),max(qlo,qhi)+1):
                if ('q',q) not in seen: e.append(('unaccounted q',q))
    if abs(tot-rowobj.confidence)>1e-6*max(1,abs(tot)): e.append(('conf',tot,rowobj.confidence))
    if abs(round(tot,2)-written_conf)>0.011: e.append(('written',tot,written_conf))
    return e

if __name__=='__main__':
    seed=int(sys.argv[1]); N=int(sys.argv[2]); mode=sys.argv[3]
    os.makedirs(WD,exist_ok=True)
    rng=random.Random(seed)
    cnt=collections.Counter(); t=time.time()
    for it in range(N):
        nref=rng.randint(1,3)
        refs={}
        for i in range(nref):
            r=rand_ref(rng, rng.randint(60,250))
            if rng.random()<0.3:
                k=rng.randint(5,15); s=rng.randint(0,len(r)-k-1); unit=[p-r[s] for p in r[s:s+k]]
                base=r[-1]+5000
                for rep in range(rng.randint(2,4)):
                    r += [base+u for u in unit]; base=r[-1]+rng.randint(3000,9000)
            refs[i+1]=r
        reflen={i:r[-1]+5000 for i,r in refs.items()}
        write(WD+'/pr.cmap',[(i,reflen[i],r) for i,r in refs.items()])
        qs={}; lens={}
        for j in range(12):
            kind=rng.choice(['clean','noisy','noisy','chimeric','indel'])
            q,L=noisy_query(rng, refs[rng.randint(1,nref)], kind)
            qs[100+j]=q; lens[100+j]=L
        write(WD+'/pq.cmap',[(i,lens[i],q) for i,q in qs.items()])
        P=dict(sp=1000,dp=1.0,su=-250,d=1500,ms=1000,bs=1200)
        extra=[]
        if rng.random()<0.6:
            P=dict(sp=rng.choice([1000,800,1500]),dp=rng.choice([1.0,0.5,2.0]),su=rng.choice([-250,-100,-400]),d=rng.choice([300,800,1500,3000]),ms=rng.choice([1000,500,2000]),bs=rng.choice([1200,600,2500]))
            extra=['-sp',str(P['sp']),'-dp',str(P['dp']),'-su',str(P['su']),'-d',str(P['d']),'-ms',str(P['ms']),'-bs',str(P['bs']),'-p',str(rng.choice([1,3,6]))]
        del captured[:]
        a=Args.parse(['-r',WD+'/pr.cmap','-q',WD+'/pq.cmap','-o',WD+'/po.xmap','-pb','-c','1','-oM',mode]+extra)
        try:
            Program(a).run()
        except Exception as ex:
            cnt['crash:'+type(ex).__name__+':'+str(ex)[:40]]+=1; continue
        for fn,rowobjs in captured:
            rows=parse_xmap(fn)
            assert len(rows)==len(rowobjs)
            for row,ro in zip(rows,rowobjs):
                cnt['rows']+=1
                e1=check_c01(row,refs,qs)
                if e1: cnt['c01']+=1; continue
                for name,e in (('c02',check_c02(row,refs,qs,reflen)),('c03',check_c03(row)),('c04',check_c04(ro,refs,qs,P,row['conf']))):
                    if e:
                        cnt[name]+=1
                        if cnt[name]<=6: print(name.upper(),it,os.path.basename(fn),row['q'],row['ori'],row['rest'],e[:4],row['hit'],row['aln'][:8], 'nseg',len([s for s in ro.segments if not s.empty]))
    print(dict(cnt),'time',time.time()-t)
