import sys
sys.path.insert(0,'/tmp/w')
from probe import *
from src.extensions.extension import Extension
from src.extensions.messages import AlignmentResultRowMessage
import src.alignment.segment_with_resolved_conflicts as swr
import src.alignment.alignment_results as ar

def pairs(seg): return [(p.reference.siteId,p.query.siteId) for p in seg.alignedPositions]
def valid(pl, rev):
    rr=[x[0] for x in pl]; qq=[x[1] for x in pl]
    ok = all(b>a for a,b in zip(rr,rr[1:]))
    ok &= all((b<a) if rev else (b>a) for a,b in zip(qq,qq[1:]))
    return ok

orig_resolve = swr.AlignmentSegmentConflictResolver.resolveConflicts
stats={'calls':0,'multi':0,'bad':0}
def mon_resolve(self, segments):
    ins=[(pairs(s), s.peak.position, s.segmentScore) for s in segments]
    out=orig_resolve(self, segments)
    stats['calls']+=1
    ne=[s for s in out.segments if not s.empty]
    if len([s for s in segments if not s.empty])>1: stats['multi']+=1
    allp=sorted(p for s in ne for p in pairs(s))
    rev = any(s.reverse for s in ne if len(s.alignedPositions)>1)
    if not valid(allp, rev):
        stats['bad']+=1
        print('RESOLVE-BAD rev',rev,'\n  IN ', ins, '\n  OUT', [(pairs(s), s.peak.position, s.segmentScore) for s in out.segments])
    return out
swr.AlignmentSegmentConflictResolver.resolveConflicts = mon_resolve

orig_join = ar.AlignmentResultRow.resolve
def mon_join(self, other):
    out = orig_join(self, other)
    if out is not None:
        pl = sorted((p.reference.siteId,p.query.siteId) for p in out.alignedPairs)
        if not valid(pl, self.reverseStrand):
            print('JOIN-BAD', self.queryId, self.reverseStrand, '\n A', [pairs(s) for s in self.segments], self.alignedRest, '\n B', [pairs(s) for s in other.segments], other.alignedRest, '\n OUT', [pairs(s) for s in out.segments])
    return out
ar.AlignmentResultRow.resolve = mon_join
if __name__=='__main__':
    seed=int(sys.argv[1]); N=int(sys.argv[2]); mode=sys.argv[3]
    sys.argv=[sys.argv[0],str(seed),str(N),mode]
    os.makedirs(WD,exist_ok=True); exec(open('/tmp/w/probe.py').read().split("if __name__=='__main__':")[1].replace('\n    ','\n'))
    print(stats)
