import sys, time, random, re, os, io, contextlib
sys.path.insert(0,'/tmp/w'); sys.path.insert(0,os.environ.get('REPO','/repo'))
from gen import *
from src.args import Args
from src.program import Program
import src.workflow_coordinator as wc
def serial_imap(f, items, **kw):
    for it in items: yield f(it)
wc.p_imap = serial_imap

def noisy_query(rng, ref, kind):
    n = rng.randint(8, 45); s = rng.randint(0, max(0,len(ref)-n-1))
    sub = ref[s:s+n]
    stretch = rng.uniform(0.93,1.07) if kind!='clean' else 1.0
    q=[]
    for p in sub:
        if kind!='clean' and rng.random()<0.12: continue
        q.append((p-sub[0])*stretch + (rng.gauss(0,300) if kind!='clean' else 0))
        if kind!='clean' and rng.random()<0.08: q.append((p-sub[0])*stretch+rng.randint(500,4000))
    if kind=='chimeric':
        s2 = rng.randint(0, max(0,len(ref)-n-1)); sub2=ref[s2:s2+rng.randint(8,30)]
        base = (q[-1] if q else 0)+rng.randint(2000,9000)
        q += [base + (p-sub2[0]) for p in sub2]
    if kind=='indel':
        k = len(q)//2; d = rng.choice([-1,1])*rng.randint(3000,40000)
        q = q[:k]+[p+d for p in q[k:]]
    q = sorted(round(max(0,p),1) for p in q)
    if len(q)<2: q=[0.0, 5000.0]
    off = rng.randint(0,3000)
    q=[p+off for p in q]
    L = q[-1]+rng.randint(1,3000)
    if rng.random()<0.5:
        q = sorted(round(L-p,1) for p in q)
    return q, L

def parse_xmap(path):
    rows=[]
    for line in open(path):
        if line.startswith('#'): continue
        f=line.rstrip('\n').split('\t')
        rows.append(dict(id=int(f[0]),q=int(f[1]),r=int(f[2]),qs=float(f[3]),qe=float(f[4]),rs=float(f[5]),re=float(f[6]),ori=f[7],conf=float(f[8]),hit=f[9],ql=float(f[10]),rl=float(f[11]),rest=f[12],ch=f[13],aln=[tuple(map(int,m)) for m in re.findall(r'\((\d+),(\d+)\)',f[14])]))
    return rows

def check_c01(row, refs, qs):
    errs=[]
    a=row['aln']
    if not a: errs.append('empty'); return errs
    R=refs[row['r']]; Q=qs[row['q']]
    for r,q in a:
        if not (1<=r<=len(R)): errs.append(f'ref label {r} oob')
        if not (1<=q<=len(Q)): errs.append(f'q label {q} oob')
    rr=[x[0] for x in a]; qq=[x[1] for x in a]
    if len(set(rr))!=len(rr): errs.append('dup ref')
    if len(set(qq))!=len(qq): errs.append('dup query')
    if any(b<=a_ for a_,b in zip(rr,rr[1:])): errs.append('ref not ascending')
    if row['ori']=='+':
        if any(b<=a_ for a_,b in zip(qq,qq[1:])): errs.append('q not increasing')
    else:
        if any(b>=a_ for a_,b in zip(qq,qq[1:])): errs.append('q not decreasing')
    return errs

WD=os.environ.get('WD','/tmp/w')
if __name__=='__main__':
    seed=int(sys.argv[1]); N=int(sys.argv[2]); mode=sys.argv[3] if len(sys.argv)>3 else 'best'
    rng=random.Random(seed)
    tot=0; bad=0; t=time.time()
    for it in range(N):
        nref=rng.randint(1,3)
        refs={}
        for i in range(nref):
            r=rand_ref(rng, rng.randint(60,250))
            if rng.random()<0.3:  # repeats
                k=rng.randint(5,15); s=rng.randint(0,len(r)-k-1); unit=[p-r[s] for p in r[s:s+k]]
                base=r[-1]+5000
                for rep in range(rng.randint(2,4)):
                    r += [base+u for u in unit]; base=r[-1]+rng.randint(3000,9000)
            refs[i+1]=r
        write(WD+'/pr.cmap',[(i,r[-1]+5000,r) for i,r in refs.items()])
        qs={}; lens={}
        for j in range(12):
            kind=rng.choice(['clean','noisy','noisy','chimeric','indel'])
            q,L=noisy_query(rng, refs[rng.randint(1,nref)], kind)
            qs[100+j]=q; lens[100+j]=L
        write(WD+'/pq.cmap',[(i,lens[i],q) for i,q in qs.items()])
        extra=[]
        if rng.random()<0.5: extra=['-d',str(rng.choice([300,800,1500,3000])),'-p',str(rng.choice([1,3,6]))]
        a=Args.parse(['-r',WD+'/pr.cmap','-q',WD+'/pq.cmap','-o',WD+'/po.xmap','-pb','-c','1','-oM',mode]+extra)
        try:
            Program(a).run()
        except Exception as e:
            import traceback; print('CRASH', it, repr(e)); traceback.print_exc(limit=-3); continue
        files=[WD+'/po.xmap']+[f for f in (WD+'/po_1.xmap',WD+'/po_2.xmap') if os.path.exists(f)]
        for fn in files:
            for row in parse_xmap(fn):
                tot+=1
                e=check_c01(row,refs,qs)
                if e:
                    bad+=1; print('VIOL',it,fn,row['q'],row['ori'],row['rest'],e,row['hit'],row['aln'][:60])
        for f in files[1:]: os.remove(f)
    print('rows',tot,'bad',bad,'time',time.time()-t)
