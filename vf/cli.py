import argparse
import os
import sys

from vf import core


def main():
    ap = argparse.ArgumentParser()
    ap.add_argument('property')
    ap.add_argument('--tier', default=os.environ.get('VERIF_TIER', 'quick'), choices=['quick', 'thorough'])
    ap.add_argument('--seed', type=int, default=int(os.environ.get('VERIF_SEED', '0')))
    ap.add_argument('--replay')
    ap.add_argument('--jobs', type=int)
    a = ap.parse_args()
    os.chdir(core.VERIF)
    import signal
    for sig in (signal.SIGTERM, signal.SIGINT, signal.SIGHUP):
        signal.signal(sig, core.on_terminate)
    if a.replay:
        sys.exit(core.run_replay(a.property.upper(), a.replay))
    sys.exit(core.run_check(a.property.upper(), a.tier, a.seed, a.jobs))


if __name__ == '__main__':
    main()
