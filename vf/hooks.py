"""Run-time instrumentation of the imported repository modules, installed from the harness (no source change).

All wrappers: never raise into the observed code, never copy or mutate its arguments, count their evaluations.
"""
import contextlib

from vf import core

core.use_repo()


class HookMissing(Exception):
    pass


@contextlib.contextmanager
def wrapped(owner, name, make):
    """Replace owner.name by make(original) for the duration of the context."""
    if not hasattr(owner, name):
        raise HookMissing('%s has no attribute %s' % (getattr(owner, '__name__', owner), name))
    own = isinstance(owner, type) and name in owner.__dict__
    raw = owner.__dict__.get(name) if isinstance(owner, type) else None
    orig = getattr(owner, name)
    new = make(orig)
    if isinstance(raw, staticmethod):
        new = staticmethod(new)
    setattr(owner, name, new)
    try:
        yield
    finally:
        if isinstance(owner, type) and not own:
            delattr(owner, name)
        elif raw is not None:
            setattr(owner, name, raw)
        else:
            setattr(owner, name, orig)


def observing(after, counter=None, before=None):
    """make() for `wrapped`: call the original, then after(args, kwargs, result, snapshot); exceptions of the monitor
    are recorded, never propagated."""
    def make(orig):
        def wrapper(*a, **k):
            snap = None
            if before is not None:
                try:
                    snap = before(a, k)
                except Exception as ex:      # monitor problem, not the program's
                    MONITOR_ERRORS.append(repr(ex))
            res = orig(*a, **k)
            try:
                if counter is not None:
                    counter[0] += 1
                after(a, k, res, snap)
            except Exception as ex:
                import traceback
                MONITOR_ERRORS.append(traceback.format_exc()[-600:])
            return res
        wrapper.__wrapped__ = orig
        return wrapper
    return make


MONITOR_ERRORS = []


# --------------------------------------------------------------------------------------------------------------
# helpers on the repository's objects (read-only)

def seg_pairs(seg):
    from src.alignment.alignment_position import AlignedPair
    return [(p.reference.siteId, p.query.siteId) for p in seg.positions if isinstance(p, AlignedPair)]


def seg_labels(seg, axis):
    from src.alignment.alignment_position import AlignedPair, ScoredNotAlignedPosition, NotAlignedQueryPosition
    out = []
    for p in seg.positions:
        if isinstance(p, AlignedPair):
            out.append(p.query.siteId if axis == 'q' else p.reference.siteId)
        elif isinstance(p, ScoredNotAlignedPosition):
            isq = isinstance(p.position, NotAlignedQueryPosition)
            if axis == 'q' and isq:
                out.append(p.position.query.siteId)
            if axis == 'r' and not isq:
                out.append(p.position.reference.siteId)
    return out


def pos_repr(p):
    from src.alignment.alignment_position import AlignedPair, ScoredNotAlignedPosition, NotAlignedQueryPosition
    if isinstance(p, AlignedPair):
        return ['P', p.reference.siteId, p.query.siteId, float(getattr(p, 'score', 0))]
    if isinstance(p, ScoredNotAlignedPosition):
        if isinstance(p.position, NotAlignedQueryPosition):
            return ['Q', p.position.query.siteId, float(p.score)]
        return ['R', p.position.reference.siteId, float(p.score)]
    return ['?', repr(p)]


def conflict(a, b, rev):
    """a, b: pair lists of two segments, a earlier in chain order. True when they share a label or are not strictly
    ordered on both axes."""
    if not a or not b:
        return False
    # strict order of all of a before all of b  <=>  max over a < min over b on the reference axis, same on query
    if max(r for r, _ in a) >= min(r for r, _ in b):
        return True
    if rev:
        return min(q for _, q in a) <= max(q for _, q in b)
    return max(q for _, q in a) >= min(q for _, q in b)


# --------------------------------------------------------------------------------------------------------------
# resolver trace (C15, C01)

class ResolveRecord:
    __slots__ = ('inputs', 'chain', 'chain_positions', 'scores', 'events', 'output', 'rev', 'keep', 'peaks')

    def __init__(self):
        self.inputs = None
        self.chain = None
        self.chain_positions = None
        self.scores = None
        self.events = []
        self.output = None
        self.rev = None
        self.keep = []
        self.peaks = None


class ResolverTrace:
    """Records, for every AlignmentSegmentConflictResolver.resolveConflicts call, the chain, every
    checkForConflicts(left, right) comparison with the lineage chain index -> current object, and the output."""

    def __init__(self, on_record=None, keep_records=False):
        self.cur = None
        self.lineage = None
        self.on_record = on_record
        self.records = [] if keep_records else None
        self.n_resolve = 0
        self.n_check = 0
        self.n_chain = 0
        self.align_ctx = []       # stack of isReverse for enclosing Aligner.align calls
        self.row_records = {}     # id(row) -> (row, ResolveRecord) for rows returned by Aligner.align
        self.keep_rows = True

    def install(self):
        import src.alignment.segments as sg
        import src.alignment.segment_with_resolved_conflicts as swr
        import src.alignment.segment_chainer as sc
        import src.alignment.aligner as al
        st = contextlib.ExitStack()
        tr = self

        def mk_check(orig):
            def check(self_, other):
                pair = orig(self_, other)
                cur = tr.cur
                if cur is not None:
                    try:
                        tr.n_check += 1
                        li = tr.lineage.get(id(self_))
                        ri = tr.lineage.get(id(other))
                        ev = {'l': li, 'r': ri, 'type': type(pair).__name__}
                        if hasattr(pair, 'leftConflictingSubsegment'):
                            lc, rc = pair.leftConflictingSubsegment, pair.rightConflictingSubsegment
                            axis = 'r' if lc.peak.position > rc.peak.position else 'q'
                            ev['axis'] = axis
                            ev['L'] = seg_labels(lc, axis)
                            ev['R'] = seg_labels(rc, axis)
                        cur.events.append(ev)
                        o = pair.resolveConflict

                        def res():
                            a, b = o()
                            if li is not None:
                                tr.lineage[id(a)] = li
                            if ri is not None:
                                tr.lineage[id(b)] = ri
                            cur.keep.extend([a, b])
                            ev['out'] = [len(a.positions), len(b.positions)]
                            return a, b
                        pair.resolveConflict = res
                    except Exception as ex:
                        MONITOR_ERRORS.append('check-trace ' + repr(ex))
                return pair
            return check

        def mk_chain(orig):
            def chain(self_, segments):
                out = orig(self_, segments)
                cur = tr.cur
                if cur is not None and cur.chain is None:
                    try:
                        tr.n_chain += 1
                        cur.chain = list(out)
                        cur.chain_positions = [list(s.positions) for s in out]
                        cur.scores = {id(p): p.score for s in out for p in s.positions}
                        cur.keep.extend(out)
                        for i, s in enumerate(out):
                            tr.lineage[id(s)] = i
                    except Exception as ex:
                        MONITOR_ERRORS.append('chain-trace ' + repr(ex))
                return out
            return chain

        def mk_resolve(orig):
            def resolve(self_, segments):
                if tr.cur is not None:          # nested call: do not trace
                    return orig(self_, segments)
                rec = ResolveRecord()
                try:
                    segments = segments if isinstance(segments, list) else list(segments)
                    rec.inputs = list(segments)
                    rec.rev = tr.align_ctx[-1] if tr.align_ctx else None
                except Exception as ex:
                    MONITOR_ERRORS.append('resolve-pre ' + repr(ex))
                tr.cur = rec
                tr.lineage = {}
                try:
                    out = orig(self_, segments)
                finally:
                    tr.cur = None
                try:
                    tr.n_resolve += 1
                    rec.output = list(out.segments)
                    if tr.records is not None:
                        tr.records.append(rec)
                    tr.last = rec
                    if tr.on_record:
                        tr.on_record(rec)
                except Exception as ex:
                    import traceback
                    MONITOR_ERRORS.append('resolve-post ' + traceback.format_exc()[-500:])
                return out
            return resolve

        def mk_align(orig):
            def align(self_, reference, query, peaks, isReverse=False):
                tr.align_ctx.append(bool(isReverse))
                tr.last = None
                try:
                    row = orig(self_, reference, query, peaks, isReverse)
                finally:
                    tr.align_ctx.pop()
                try:
                    if tr.keep_rows and tr.last is not None:
                        tr.row_records[id(row)] = (row, tr.last)
                except Exception as ex:
                    MONITOR_ERRORS.append('align-post ' + repr(ex))
                return row
            return align

        st.enter_context(wrapped(sg.AlignmentSegment, 'checkForConflicts', mk_check))
        st.enter_context(wrapped(sg.EmptyAlignmentSegment, 'checkForConflicts', mk_check))
        st.enter_context(wrapped(sc.SegmentChainer, 'chain', mk_chain))
        st.enter_context(wrapped(swr.AlignmentSegmentConflictResolver, 'resolveConflicts', mk_resolve))
        st.enter_context(wrapped(al.Aligner, 'align', mk_align))
        self.last = None
        return st


def classify_resolver_conflicts(rec, rev=None):
    """Clause (c) of C15 on one ResolveRecord: list of (key, text, detail) for every pair of output segments that
    still share a label / cross. The key is decided from the trace only."""
    out = []
    if rec.chain is None:
        segs = rec.output
        ne = [(i, seg_pairs(s)) for i, s in enumerate(segs) if seg_pairs(s)]
        if len(ne) > 1:     # < 2 input segments are passed through; nothing to compare
            pass
        return out
    segs = rec.output
    if rev is None:
        rev = rec.rev
    if rev is None:
        rev = any(s.reverse for s in rec.chain if not s.empty and len(s.alignedPositions) > 1)
    ne = [(i, seg_pairs(s)) for i, s in enumerate(segs) if seg_pairs(s)]
    for x in range(len(ne)):
        for y in range(x + 1, len(ne)):
            i, a = ne[x]
            j, b = ne[y]
            if conflict(a, b, rev):
                evs = [e for e in rec.events if e['l'] == i and e['r'] == j]
                if not evs:
                    k = 'resolver-uncompared-neighbours'
                    txt = 'output segments %d and %d of one resolveConflicts call still conflict and were never ' \
                          'compared (separated by a chain member that became empty or lies between them)' % (i, j)
                else:
                    e = evs[-1]
                    if e['type'] == '_SegmentPairWithConflict' and len(e['L']) == len(e['R']) and e['L'] != e['R']:
                        k = 'resolver-offset-label-lists'
                        txt = 'segments %d and %d were merged index by index although their overlapping %s-label ' \
                              'lists %s / %s are offset' % (i, j, e['axis'], e['L'][:8], e['R'][:8])
                    else:
                        k = 'resolver-compared-pair-still-conflicts'
                        txt = 'segments %d and %d were compared (%s, lists %s / %s) and still conflict' % (
                            i, j, e['type'], e.get('L'), e.get('R'))
                out.append((k, txt, {'i': i, 'j': j, 'a': a[:40], 'b': b[:40], 'rev': rev}))
    return out


# --------------------------------------------------------------------------------------------------------------
# candidates per query and pass (message bus) + pass tagging

class PassCounter:
    def __init__(self):
        self.n = 0

    def install(self):
        import src.workflow_coordinator as wcm
        pc = self

        def mk(orig):
            def execute(self_, referenceMaps, queryMaps):
                pc.n += 1
                return orig(self_, referenceMaps, queryMaps)
            return execute
        return wrapped(wcm._WorkflowCoordinator, 'execute', mk)


SINKS = {}       # module-level registry: Extensions are pickled per task, so they carry only a key into this dict


def candidates_extension(passcounter, sink):
    """Extension for MultipleAlignmentResultRowsMessage: appends (pass, query map, [messages]) to sink."""
    from src.extensions.messages import MultipleAlignmentResultRowsMessage
    key = 'cands-%d' % id(sink)
    SINKS[key] = (sink, passcounter)
    return _make_ext(MultipleAlignmentResultRowsMessage, key, 'cands')


def _handle(key, kind, m):
    try:
        sink, pc = SINKS[key]
        if kind == 'cands':
            msgs = list(m.messages)
            sink.append((pc.n, msgs[0].query if msgs else None, msgs))
        elif kind == 'init':
            d = m.data
            sink.append((pc.n, d.query, d.reference.moleculeId, bool(d.reverseStrand), [(p.score, p.position) for p in d.peaks]))
    except Exception as ex:
        MONITOR_ERRORS.append('bus monitor ' + repr(ex))


_EXT_CLASSES = {}


def _make_ext(message_type, key, kind):
    """Instance of an Extension subclass defined at module level (picklable by reference), carrying only strings."""
    from src.extensions.extension import Extension
    cls = _EXT_CLASSES.get(message_type.__name__)
    if cls is None:
        cls = type('VfExt' + message_type.__name__, (_VfExtBase, Extension), {'messageType': message_type})
        cls.__module__ = __name__
        globals()[cls.__name__] = cls
        _EXT_CLASSES[message_type.__name__] = cls
    e = cls()
    e.key, e.kind = key, kind
    return e


class _VfExtBase:
    def handle(self, m):
        _handle(self.key, self.kind, m)


def initial_extension(passcounter, sink):
    from src.extensions.messages import InitialAlignmentMessage
    key = 'init-%d' % id(sink)
    SINKS[key] = (sink, passcounter)
    return _make_ext(InitialAlignmentMessage, key, 'init')
