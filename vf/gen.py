"""Seeded workload generators. Everything is driven by a random.Random handed in by the caller."""

DEFAULTS = dict(sp=1000, dp=1.0, su=-250, d=1500, ms=1000, bs=1200, p=3, diff=100000, sj=1.0, ss=0,
                r1=1400, b1=1, r2=100, b2=4, ma=16000, md=20000, pt=27.0)
FLAG = dict(sp='-sp', dp='-dp', su='-su', d='-d', ms='-ms', bs='-bs', p='-p', diff='-diff', sj='-sj', ss='-ss',
            r1='-r1', b1='-b1', r2='-r2', b2='-b2', ma='-ma', md='-md', pt='-pt')
MODES = ['best', 'separate', 'joined', 'all']


def rnd_pos(x, decimals):
    return round(x, 1) if decimals else float(round(x))


def gen_ref(rng, n=None, mean=None, mn=None, decimals=None, repeats=None):
    """Reference label positions: spacing mn + exponential tail, optional tandem repeats."""
    n = n or rng.randint(40, 250)
    mean = mean or rng.choice([4000, 9000, 9000, 14000, 20000])
    mn = mn or rng.choice([500, 2000, 2000, 4000])
    if mn >= mean:
        mn = mean // 2
    decimals = rng.random() < 0.5 if decimals is None else decimals
    pos = []
    p = rng.randint(1000, 30000) + (rng.random() if decimals else 0)
    for _ in range(n):
        pos.append(p)
        p += mn + rng.expovariate(1 / (mean - mn))
    if repeats is None:
        repeats = rng.random() < 0.3
    if repeats and len(pos) > 20:
        k = rng.randint(5, 15)
        s = rng.randint(0, len(pos) - k - 1)
        unit = [x - pos[s] for x in pos[s:s + k]]
        base = pos[-1] + rng.randint(3000, 25000)
        for _ in range(rng.randint(2, 4)):
            pos += [base + u for u in unit]
            base = pos[-1] + rng.randint(3000, 30000)
    pos = sorted(set(rnd_pos(x, decimals) for x in pos))
    return pos


def ref_length(rng, pos, decimals=True):
    return rnd_pos(pos[-1] + rng.choice([0.4, 1, 1000, 5000.7, rng.randint(1, 20000)]), decimals)


def gen_refs(rng, nref=None, ids=None, **kw):
    nref = nref or rng.randint(1, 3)
    ids = ids or (list(range(1, nref + 1)) if rng.random() < 0.6 else sorted(rng.sample(range(1, 400), nref)))
    out = []
    for i in ids:
        pos = gen_ref(rng, **kw)
        out.append([i, ref_length(rng, pos), pos])
    return out


def finish_query(rng, q, flip=None, off=None, trail=None):
    """q: positions relative to 0 (any order); add offset, trailing length, optionally mirror. -> (positions, length)"""
    q = sorted(round(max(0.0, p), 1) for p in q)
    if len(q) < 2:
        q = [0.0, 5000.0]
    q0 = q[0]
    q = [round(p - q0, 1) for p in q]
    off = rng.choice([0, 20.5, rng.randint(0, 3000), rng.randint(0, 50000) + 0.3]) if off is None else off
    q = [round(p + off, 1) for p in q]
    trail = rng.choice([0.1, 1, rng.randint(1, 3000), rng.randint(1, 30000)]) if trail is None else trail
    length = round(q[-1] + trail, 1)
    if flip is None:
        flip = rng.random() < 0.5
    if flip:
        q = sorted(round(length - p, 1) for p in q)
    return q, length


def query_from_ref(rng, ref, kind, refs=None):
    """One query molecule of class `kind` derived from reference label list `ref`."""
    n = rng.randint(8, 45)
    n = min(n, max(3, len(ref) - 2))
    s = rng.randint(0, max(0, len(ref) - n - 1))
    sub = ref[s:s + n]
    noisy = kind != 'clean'
    stretch = rng.uniform(0.90, 1.10) if noisy else 1.0
    sigma = rng.choice([100, 200, 300, 500])
    pdrop = rng.uniform(0.05, 0.15)
    pextra = rng.uniform(0.05, 0.10)
    q = []
    for p in sub:
        if noisy and rng.random() < pdrop:
            continue
        q.append((p - sub[0]) * stretch + (rng.gauss(0, sigma) if noisy else 0))
        if noisy and rng.random() < pextra:
            q.append((p - sub[0]) * stretch + rng.randint(500, 4000))
    if kind == 'chimeric':
        other = rng.choice(refs)[2] if refs else ref
        m = rng.randint(8, 30)
        s2 = rng.randint(0, max(0, len(other) - m - 1))
        sub2 = other[s2:s2 + m]
        if rng.random() < 0.4:
            sub2 = [sub2[-1] - x + sub2[0] for x in reversed(sub2)]
        base = (max(q) if q else 0) + rng.randint(2000, 9000)
        q += [base + (p - sub2[0]) for p in sub2]
    elif kind == 'deletion-between-repeats':
        return deletion_between_repeats_query(rng, ref, refs)
    elif kind == 'translocation':
        # first part from `ref`, second part from ANOTHER contig at a nearby coordinate just behind it (same strand), so that
        # the two records of the molecule are on different contigs but within maxDifference of each other
        others = [m[2] for m in (refs or []) if m[2] is not ref] or [ref]
        other = rng.choice(others)
        end_coord = sub[-1]
        cand = [i for i, x in enumerate(other) if x > end_coord]
        if len(cand) > 12:
            s2 = cand[0] + rng.randint(0, 3)
            sub2 = other[s2:s2 + rng.randint(9, 25)]
            base = (max(q) if q else 0) + rng.randint(2000, 9000)
            q += [base + (p - sub2[0]) for p in sub2]
    elif kind == 'sandwich':
        # aligned middle with two unaligned flanks of >= 8 labels each: yields two second-pass fragments of one query
        def flank(base):
            src = rng.choice(refs)[2] if refs else ref
            m = rng.randint(8, 12)
            s3 = rng.randint(0, max(0, len(src) - m - 1))
            part = src[s3:s3 + m]
            if rng.random() < 0.5:
                part = [part[-1] - x + part[0] for x in reversed(part)]
            return [base + (x - part[0]) for x in part]
        left = flank(0.0)
        shift_ = left[-1] + rng.randint(3000, 9000)
        q = left + [x + shift_ for x in q]
        q = q + flank(max(q) + rng.randint(3000, 9000))
    elif kind == 'indel':
        k = len(q) // 2
        d = rng.choice([-1, 1]) * rng.randint(2000, 40000)
        q = q[:k] + [p + d for p in q[k:]]
    elif kind == 'partial':
        # 30-70 % of the molecule matches, the rest is random labels (drives the second pass)
        keep = max(4, int(len(q) * rng.uniform(0.3, 0.7)))
        q = sorted(q)
        tail_start = q[keep - 1] if keep <= len(q) else (q[-1] if q else 0)
        q = q[:keep]
        p = tail_start
        other = rng.choice(refs)[2] if refs and rng.random() < 0.6 else None
        if other and len(other) > 12:
            m = rng.randint(8, min(30, len(other) - 2))
            s2 = rng.randint(0, len(other) - m - 1)
            sub2 = other[s2:s2 + m]
            base = p + rng.randint(2000, 9000)
            q += [base + (x - sub2[0]) * rng.uniform(0.97, 1.03) for x in sub2]
        else:
            for _ in range(rng.randint(6, 25)):
                p += 1500 + rng.expovariate(1 / 7000)
                q.append(p)
        if rng.random() < 0.5:
            mx = max(q)
            q = [mx - x for x in q]
    return finish_query(rng, q)


def degenerate_map(rng, forref=False):
    kind = rng.choice(['one', 'two', 'dup', 'tiny', 'normal', 'normal', 'long', 'dense', 'sparse', 'onebin', 'span'])
    if kind == 'one':
        pos = [rng.randint(0, 50000) + rng.choice([0, 0.5])]
    elif kind == 'two':
        a = rng.randint(0, 50000)
        pos = [a, a + rng.choice([0, 1, 100, 5000, 200000])]
    elif kind == 'dup':
        a = rng.randint(0, 50000)
        pos = sorted([a] * rng.randint(2, 4) + [a + rng.randint(0, 30000) for _ in range(rng.randint(0, 5))])
    elif kind == 'tiny':
        pos = sorted(rng.randint(0, 1500) for _ in range(rng.randint(2, 6)))
    elif kind == 'onebin':
        a = rng.randint(0, 100) * 1400
        pos = sorted(a + rng.randint(0, 1399) for _ in range(rng.randint(2, 5)))
    elif kind == 'long':
        pos = gen_ref(rng, rng.randint(200, 400), repeats=False)
    elif kind == 'dense':
        pos = sorted(rng.randint(0, 100000) for _ in range(rng.randint(50, 200)))
    elif kind == 'sparse':
        pos = sorted(rng.randint(0, 5000000) for _ in range(rng.randint(3, 12)))
    elif kind == 'span':
        # labels span a small fraction of the contig length
        a = rng.randint(0, 2000000)
        pos = sorted(a + rng.randint(0, 60000) for _ in range(rng.randint(3, 15)))
    else:
        pos = gen_ref(rng, rng.randint(10, 80), repeats=False)
    pos = [float(p) if float(p) == int(p) else round(p, 1) for p in pos]
    length = pos[-1] + rng.choice([0, 0.4, 1, 1000, 100000] + ([3000000] if kind == 'span' else []))
    return kind, round(length, 1), pos


def gen_params(rng, prob=0.6, keys=('sp', 'dp', 'su', 'd', 'ms', 'bs', 'p', 'sj', 'ss')):
    """Non-default scoring / threshold parameters within what the option help allows."""
    P = dict(DEFAULTS)
    if rng.random() < prob:
        ch = dict(sp=[1000, 800, 1500, 600], dp=[1.0, 0.5, 2.0, 0.25], su=[-250, -100, -400, 0, -50],
                  d=[300, 800, 1500, 3000, 0], ms=[1000, 500, 2000, 300, 1600], bs=[1200, 600, 2500, 500, 250, 0],
                  p=[1, 3, 6, 8], sj=[0.0, 0.5, 1.0, 2.0], ss=[0, 1], diff=[5000, 20000, 100000, 500000],
                  r1=[1400, 500, 3000, 700], b1=[0, 1, 3], r2=[100, 50, 400], b2=[0, 4, 2], ma=[16000, 2000, 0],
                  pt=[27.0, 5.0, 1.0, 60.0, 0.0])
        for k in keys:
            if k in ch:
                P[k] = rng.choice(ch[k])
        if 'r1' in keys:
            P['md'] = rng.choice([P['r1'], 20000, 5 * P['r1']])
    return P


FLOATS = ('dp', 'sj', 'pt')


def argv_of(P):
    out = []
    for k, v in P.items():
        if v != DEFAULTS[k]:
            out += [FLAG[k], repr(float(v)) if k in FLOATS else str(int(v))]
    return out


def pipeline_case(rng, classes, nq=12, nref=None, mode=None, param_prob=0.6, param_keys=None, ref_kw=None,
                  qid0=None):
    refs = gen_refs(rng, nref, **(ref_kw or {}))
    qid0 = qid0 if qid0 is not None else rng.choice([1, 100, 100, 5000])
    queries, qclass = [], {}
    for j in range(nq):
        kind = rng.choice(classes)
        ref = rng.choice(refs)[2]
        pos, length = query_from_ref(rng, ref, kind, refs)
        qid = qid0 + j
        queries.append([qid, length, pos])
        qclass[str(qid)] = kind
    P = gen_params(rng, param_prob, param_keys) if param_keys else gen_params(rng, param_prob)
    return {'refs': refs, 'queries': queries, 'qclass': qclass, 'params': P,
            'mode': mode or rng.choice(MODES)}


def direct_align_case(rng):
    """Hostile direct drive of Aligner.align: real-looking label data, synthetic seed-peak lists (ladders around the
    true diagonal on stretched molecules, random peaks, near-duplicates), both strands."""
    ref = gen_ref(rng, rng.randint(40, 120), mean=rng.choice([4000, 9000]), mn=rng.choice([500, 2000]), decimals=False,
                  repeats=False)
    ref = [int(p) for p in ref]
    if rng.random() < 0.4:
        k = rng.randint(4, 10)
        s = rng.randint(0, len(ref) - k - 1)
        unit = [p - ref[s] for p in ref[s:s + k]]
        base = ref[-1] + 3000
        for _ in range(rng.randint(2, 4)):
            ref += [base + u for u in unit]
            base = ref[-1] + rng.randint(1000, 6000)
    n = rng.randint(8, min(40, len(ref) - 2))
    s = rng.randint(0, len(ref) - n - 1)
    sub = ref[s:s + n]
    stretch = rng.uniform(0.9, 1.1)
    q = []
    for p in sub:
        if rng.random() < 0.1:
            continue
        q.append((p - sub[0]) * stretch + rng.gauss(0, 200))
        if rng.random() < 0.1:
            q.append((p - sub[0]) * stretch + rng.randint(300, 3000))
    if rng.random() < 0.4 and len(q) > 6:
        k = len(q) // 2
        dd = rng.choice([-1, 1]) * rng.randint(2000, 20000)
        q = q[:k] + [p + dd for p in q[k:]]
    q = sorted(set(round(max(p, 0)) for p in q))
    if len(q) < 3:
        q = [0, 4000, 9000]
    q = [p - q[0] for p in q]
    rev = rng.random() < 0.5
    if rev:
        q = sorted(q[-1] - p for p in q)
    shift = rng.choice([0, 0, 0, 3, 11])
    true_start = sub[0]
    npk = rng.randint(1, 8)
    kind = rng.choice(['ladder', 'random', 'dup'])
    if kind == 'ladder':
        step = rng.choice([200, 500, 1000, 2000, 5000])
        c = true_start + rng.randint(-3000, 3000)
        pk = [[c + i * step * rng.choice([1, 1, -1]), round(rng.uniform(10, 50), 3)] for i in range(npk)]
    elif kind == 'random':
        pk = [[true_start + rng.randint(-30000, 30000), round(rng.uniform(10, 50), 3)] for _ in range(npk)]
    else:
        c = true_start + rng.randint(-500, 500)
        pk = [[c + rng.choice([0, 0, 100, -100, 1400]), round(rng.uniform(10, 50), 3)] for _ in range(npk)]
    rng.shuffle(pk)
    P = dict(sp=rng.choice([1000, 1000, 800]), dp=rng.choice([1.0, 1.0, 0.5]), su=rng.choice([-250, -250, -100]),
             d=rng.choice([300, 800, 1500, 3000]), ms=rng.choice([500, 1000, 2000]), bs=rng.choice([600, 1200, 2500]),
             sj=rng.choice([0.0, 0.5, 1.0, 2.0]), ss=rng.choice([0, 1]))
    return {'kind': 'direct', 'ref': ref, 'ref_len': ref[-1] + 5000, 'query': q, 'query_len': q[-1] + 1,
            'shift': shift, 'rev': rev, 'peaks': pk, 'params': P, 'peak_kind': kind}


def add_nearfull(rng, case, n=None):
    """Adds short reference contigs and queries covering nearly all of one (either strand): the correlation of the
    matching strand is then only a few bins long, an input shape ordinary windows never produce."""
    n = n or rng.randint(1, 2)
    rid = max(m[0] for m in case['refs']) + 1
    qid = max(m[0] for m in case['queries']) + 1
    for _ in range(n):
        pos = gen_ref(rng, rng.randint(12, 40), repeats=False)
        case['refs'].append([rid, ref_length(rng, pos), pos])
        drop_front, drop_back = rng.choice([(0, 1), (1, 0), (0, 0), (1, 1), (0, 2)])
        sub = pos[drop_front:len(pos) - drop_back]
        q = [p - sub[0] for p in sub]
        qp, ql = finish_query(rng, q, off=rng.choice([0, 20.5, 300]), trail=rng.choice([0.1, 1, 50]))
        case['queries'].append([qid, ql, qp])
        case['qclass'][str(qid)] = 'nearfull'
        rid += 1
        qid += 1
    return case


def long_molecule_case(rng, nq=None, mode=None, indel=(1500, 20000)):
    """Realistic long molecules: one 1-3 Mb reference (label spacing 400 bp + exponential, mean 5-9 kb), queries of
    100-400 kb with 0-3 indels of 1.5-20 kb, 10 % missing and 5 % extra labels, sd 150 bp, 2 % stretch, both strands.
    Long molecules with several indels are what drives multi-segment first-pass rows into the second-pass join."""
    length = rng.choice([1000000, 2000000, 3000000])
    mean = rng.choice([5000, 7000, 9000])
    pos = []
    p = rng.randint(100, 3000)
    while p < length - 1000:
        pos.append(float(p))
        p += 400 + int(rng.expovariate(1 / mean))
    refs = [[1, float(length), pos]]
    queries, qclass = [], {}
    nq = nq or rng.randint(8, 16)
    qid = 1
    while len(queries) < nq:
        qlen = rng.randint(100000, 400000)
        start = rng.randint(0, length - qlen - 1)
        sub = [x - start for x in pos if start <= x < start + qlen]
        for _ in range(rng.choice([0, 1, 2, 3])):
            at = rng.randint(qlen // 5, 4 * qlen // 5)
            size = rng.choice([-1, 1]) * rng.randint(*indel)
            if size > 0:
                sub = [x if x < at else x + size for x in sub]
            else:
                sub = [x if x < at else x + size for x in sub if not (at <= x < at - size)]
        s = 1 + rng.gauss(0, 0.02)
        sub = [x * s + rng.gauss(0, 150) for x in sub if rng.random() > 0.1]
        if sub:
            sub += [rng.uniform(0, max(sub)) for _ in range(int(len(sub) * 0.05))]
        sub = sorted(round(max(0.0, x), 1) for x in sub)
        if len(sub) < 8:
            continue
        L = round(sub[-1] + 50, 1)
        if rng.random() < 0.5:
            sub = sorted(round(L - x, 1) for x in sub)
        queries.append([qid, L, sub])
        qclass[str(qid)] = 'long-multi-indel'
        qid += 1
    return {'refs': refs, 'queries': queries, 'qclass': qclass, 'params': dict(DEFAULTS), 'mode': mode or rng.choice(MODES)}


def big_file_case(rng, nq):
    """Many short clean queries on one reference: a file with more than a thousand records (writer batching, ids)."""
    pos = gen_ref(rng, 150, mean=9000, mn=2000, decimals=False, repeats=False)
    refs = [[1, ref_length(rng, pos), pos]]
    queries, qclass = [], {}
    for j in range(nq):
        n = rng.randint(9, 14)
        s = rng.randint(0, len(pos) - n - 1)
        sub = pos[s:s + n]
        q, L = finish_query(rng, [p - sub[0] for p in sub], off=20.0, trail=50)
        queries.append([j + 1, L, q])
        qclass[str(j + 1)] = 'clean-short'
    P = dict(DEFAULTS)
    P['p'] = 1
    return {'refs': refs, 'queries': queries, 'qclass': qclass, 'params': P, 'mode': rng.choice(['best', 'separate'])}


def add_short_contig_first(rng, case):
    """A reference contig shorter than most queries, listed FIRST (lowest id): scans that stop at, or are ordered by,
    an unusable contig show here."""
    mn = min(m[0] for m in case['refs'])
    if mn <= 1:
        for m in case['refs']:
            m[0] += 1
        mn = 2
    pos = gen_ref(rng, rng.randint(6, 12), mean=6000, mn=2000, repeats=False)
    case['refs'].insert(0, [mn - 1, round(pos[-1] + 100, 1), pos])
    return case


def huge_coordinate_case(rng):
    """Contig-sized queries: query coordinates / lengths beyond 2**21 (with fractions) and 2**24, sparse labels so it is cheap."""
    pos = []
    p = 20000.0
    for _ in range(700):
        pos.append(round(p, 1))
        p += 20000 + rng.expovariate(1 / 25000)
    refs = [[1, round(pos[-1] + 5000.5, 1), pos]]
    queries, qclass = [], {}
    for j, (n, lo) in enumerate([(120, 5), (400, 100), (640, 20), (200, 300)]):
        s = rng.randint(lo, max(lo, len(pos) - n - 2))
        sub = pos[s:s + n]
        q = [x - sub[0] for x in sub]
        qp, ql = finish_query(rng, q, off=rng.choice([0.3, 20.5, 1000.7]), trail=rng.choice([0.4, 50.6]), flip=bool(j % 2))
        queries.append([j + 1, ql, qp])
        qclass[str(j + 1)] = 'contig-sized'
    return {'refs': refs, 'queries': queries, 'qclass': qclass, 'params': dict(DEFAULTS), 'mode': rng.choice(MODES)}


def add_contig_sized_query(rng, case, nlabels=None):
    """A query of 420-700 labels with one-decimal coordinates cut from the longest reference (extended if necessary)."""
    ref = max(case['refs'], key=lambda m: len(m[2]))
    pos = list(ref[2])
    n = nlabels or rng.randint(420, 700)
    p = pos[-1]
    while len(pos) < n + 30:
        p += 2000 + rng.expovariate(1 / 9000)
        pos.append(round(p, 1))
    ref[2] = pos
    ref[1] = round(pos[-1] + 5000.3, 1)
    s0 = rng.randint(0, len(pos) - n - 1)
    sub = pos[s0:s0 + n]
    q = [(x - sub[0]) * rng.uniform(0.995, 1.005) + rng.gauss(0, 120) for x in sub if rng.random() > 0.05]
    qp, ql = finish_query(rng, q, off=rng.choice([0.3, 20.5]), trail=rng.choice([0.4, 50.6]))
    qid = max(m[0] for m in case['queries']) + 1
    case['queries'].append([qid, ql, qp])
    case['qclass'][str(qid)] = 'contig-sized'
    return case


def far_reference_case(rng, offset=None, nq=6):
    """Reference whose labels start beyond 2**24 bp (a window of a long chromosome kept in genome coordinates)."""
    offset = offset or rng.choice([17000000, 60000000, 150000000]) + rng.randint(0, 999)
    pos = [round(offset + x, 1) for x in gen_ref(rng, rng.randint(80, 160), mean=9000, mn=2000, decimals=True, repeats=False)]
    refs = [[1, round(pos[-1] + 5000.5, 1), pos]]
    queries, qclass = [], {}
    for j in range(nq):
        kind = rng.choice(['clean', 'noisy', 'noisy', 'indel'])
        qp, ql = query_from_ref(rng, pos, kind, refs)
        queries.append([j + 1, ql, qp])
        qclass[str(j + 1)] = kind + '@far'
    P = dict(DEFAULTS)
    P['d'] = rng.choice([1500, 300, 800])
    return {'refs': refs, 'queries': queries, 'qclass': qclass, 'params': P, 'mode': rng.choice(MODES)}


def translocation_case(rng):
    """One or two molecules whose two halves come from two different contigs at neighbouring coordinates on the same strand,
    with reference label numbers that keep rising across the junction (contig 2 has a dense head) - the situation in
    which a join that forgets to compare the contigs produces a plausible-looking record."""
    p1 = gen_ref(rng, rng.randint(70, 110), mean=9000, mn=2000, decimals=True, repeats=False)
    head = sorted(round(rng.uniform(1000, p1[len(p1) // 2]), 1) for _ in range(len(p1)))      # dense head: high label numbers early
    tail = [x for x in gen_ref(rng, rng.randint(60, 90), mean=9000, mn=2000, decimals=True, repeats=False)]
    tail = [round(x + p1[len(p1) // 2], 1) for x in tail]
    p2 = sorted(set(head + tail))
    refs = [[1, round(p1[-1] + 5000, 1), p1], [2, round(p2[-1] + 5000, 1), p2]]
    queries, qclass = [], {}
    for j in range(rng.randint(1, 2)):
        k = rng.randint(len(p1) // 2 - 5, len(p1) // 2 + 5)
        na, nb = rng.randint(14, 22), rng.randint(9, 13)
        A = p1[k - na:k]
        c = A[-1]
        start2 = next((i for i, x in enumerate(p2) if x > c + rng.randint(2000, 30000)), None)
        if start2 is None or start2 + nb >= len(p2):
            continue
        B = p2[start2:start2 + nb]
        q = [x - A[0] for x in A]
        base = q[-1] + (B[0] - c)
        q += [base + (x - B[0]) for x in B]
        q = [x + rng.gauss(0, 80) for x in q]
        qp, ql = finish_query(rng, q, flip=rng.random() < 0.3)
        queries.append([j + 1, ql, qp])
        qclass[str(j + 1)] = 'translocation-two-contigs'
    if not queries:
        qp, ql = query_from_ref(rng, p1, 'clean', refs)
        queries.append([1, ql, qp])
        qclass['1'] = 'clean'
    P = dict(DEFAULTS)
    P['diff'] = rng.choice([100000, 500000])
    return {'refs': refs, 'queries': queries, 'qclass': qclass, 'params': P, 'mode': rng.choice(MODES)}


def deletion_between_repeats_query(rng, ref, refs=None):
    """Molecule spanning a deletion whose two ends carry the same short label motif: the motif labels are aligned by the
    first-pass record (left copy) and by the second-pass record (right copy) - a join attempt over shared query labels."""
    n = len(ref)
    if n < 60:
        return query_from_ref(rng, ref, 'indel', refs)
    a = rng.randint(5, n - 50)
    left = ref[a:a + rng.randint(16, 24)]
    gap_labels = rng.randint(5, 9)
    b = ref.index(left[-1]) + gap_labels
    right = ref[b:b + rng.randint(9, 13)]
    if len(right) < 8:
        return query_from_ref(rng, ref, 'indel', refs)
    q = [x - left[0] for x in left]
    # the molecule continues after the left part with the labels of the right part, glued at the motif (last 2-3 labels
    # of `left` have the spacing of the first labels of `right` only approximately - enough to be paired within maxDistance)
    m = rng.randint(2, 3)
    glue = q[-m]
    q = q[:-m] + [glue + (x - right[0]) for x in right]
    q = [x + rng.gauss(0, 60) for x in q]
    return finish_query(rng, q)
