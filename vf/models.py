"""Executable reference models written from the property statements (no repository code)."""
import math


# ---------------------------------------------------------------------------------------------- C13 segment scan
def segment_scan(scores, ms, bs, eb=0.0, ea=0.0, em=0.0):
    """One left-to-right scan: a run starts at i, its prefix sum is followed; the run breaks at the first position where
    the prefix sum is <= 0 or <= (running maximum - bs); the segment is the prefix up to the FIRST maximum, kept when
    that maximum >= ms; the breaking position is skipped; all state is reset per run. -> [(start, end_exclusive)]"""
    runs = []
    i, n = 0, len(scores)
    while i < n:
        pref = 0.0
        best = 0.0
        bestend = None
        j = i
        while j < n:
            pref += scores[j]
            if pref <= max(0.0, best - bs) + eb:
                break
            j += 1
            if pref > best + ea:
                best = pref
                bestend = j
        if bestend is not None and best >= ms + em:
            runs.append((i, bestend))
        i = j + 1
    return runs


def segment_scan_accepts(scores, ms, bs, got, eps=1e-6):
    """True when `got` is a result of the scan if every comparison that is within eps of equality may go either way
    (used only for float-valued scores, where the code legitimately compares a running sum with a re-summed value)."""
    n = len(scores)
    got = list(got)
    stack = [(0, 0, 0.0, 0.0, None, 0)]      # run start, j, pref, best, bestend, number of runs matched so far
    seen = set()
    while stack:
        st = stack.pop()
        if st in seen:
            continue
        seen.add(st)
        i, j, pref, best, bestend, k = st
        if i >= n:
            if k == len(got):
                return True
            continue
        if j >= n:
            ends = [(True, )] if False else None
            # run ends at the end of the list
            for keep in _choices(best - ms, eps, ge=True) if bestend is not None else [False]:
                if keep:
                    if k < len(got) and got[k] == (i, bestend):
                        stack.append((n, n, 0.0, 0.0, None, k + 1))
                else:
                    stack.append((n, n, 0.0, 0.0, None, k))
            continue
        p2 = pref + scores[j]
        for brk in _choices(max(0.0, best - bs) - p2, eps, ge=True):
            if brk:
                for keep in _choices(best - ms, eps, ge=True) if bestend is not None else [False]:
                    if keep:
                        if k < len(got) and got[k] == (i, bestend):
                            stack.append((j + 1, j + 1, 0.0, 0.0, None, k + 1))
                    else:
                        stack.append((j + 1, j + 1, 0.0, 0.0, None, k))
            else:
                for acc in _choices(p2 - best, eps, ge=False):
                    if acc:
                        stack.append((i, j + 1, p2, p2, j + 1, k))
                    else:
                        stack.append((i, j + 1, p2, best, bestend, k))
    return False


def _choices(diff, eps, ge):
    """Possible outcomes of `diff >= 0` (ge) or `diff > 0` when |diff| < eps counts as a tie that may go either way."""
    if abs(diff) < eps:
        return [True, False]
    return [diff >= 0 if ge else diff > 0]


def segment_clauses(scores, is_pair, ranges, seg_scores, ms, bs):
    """Each clause of C13 as a predicate on the output ranges (independent of segment_scan)."""
    e = []
    prev_end = None
    n = len(scores)
    for (s, t), sc in zip(ranges, seg_scores):
        if not (0 <= s < t <= n):
            e.append('range %s outside the list' % ((s, t),))
            continue
        if prev_end is not None and s < prev_end + 1:
            e.append('segments not disjoint/ordered/separated by a skipped position: previous end %d, start %d' % (prev_end, s))
        prev_end = t
        mem = scores[s:t]
        if not (is_pair[s] and scores[s] > 0):
            e.append('segment %s does not start on a positively scored pair' % ((s, t),))
        if not (is_pair[t - 1] and scores[t - 1] > 0):
            e.append('segment %s does not end on a positively scored pair' % ((s, t),))
        tot = sum(mem)
        if abs(tot - sc) > 1e-6 * max(1.0, abs(tot)):
            e.append('segment %s score %s != sum of members %s' % ((s, t), sc, tot))
        if tot < ms - 1e-9:
            e.append('segment %s score %s below minScore %s' % ((s, t), tot, ms))
        pref = 0.0
        best = 0.0
        first_max_at = None
        for k, x in enumerate(mem):
            pref += x
            if pref <= 0:
                e.append('segment %s has a non-positive prefix sum at offset %d' % ((s, t), k))
                break
            if pref <= best - bs:
                e.append('segment %s prefix falls breakSegmentThreshold below its running maximum at offset %d' % ((s, t), k))
                break
            if pref > best:
                best = pref
                first_max_at = k
        else:
            if first_max_at != len(mem) - 1:
                e.append('segment %s does not end at the first position of its maximum' % ((s, t),))
            # not extendable to the right to a higher score without first violating a condition
            pref2 = pref
            for k in range(t, n):
                pref2 += scores[k]
                if pref2 <= max(0.0, best - bs):
                    break
                if pref2 > best:
                    e.append('segment %s could be extended to index %d with a higher score %s > %s' % ((s, t), k, pref2, best))
                    break
    return e


# ---------------------------------------------------------------------------------------------- C14 chain
def seg_geom(seg):
    """(ref start, ref end, query start, query end) coordinates of a non-empty segment's first/last pair."""
    a, b = seg.startPosition, seg.endPosition
    return (a.reference.position, b.reference.position, a.query.position, b.query.position)


def diag_key(g):
    return g[0] + g[1] + g[2] + g[3]


def overlap_forbidden(gp, gc):
    """The statement's rule from coordinates: the later segment (gc) overlaps the earlier one (gp) by more than half
    the shorter of the two, on the reference or on the query axis. Coordinates ascend along the alignment on both
    axes (reverse-strand query coordinates are mirrored by OpticalMap.getPositionsWithSiteIds)."""
    ref_short = min(abs(gp[1] - gp[0]), abs(gc[1] - gc[0]))
    q_short = min(abs(gp[3] - gp[2]), abs(gc[3] - gc[2]))
    ov_ref = gp[1] - gc[0]
    ov_q = gp[3] - gc[2]
    return 2 * ov_ref > ref_short or 2 * ov_q > q_short


def best_subset_total(segs_in_key_order, score_of, join):
    """Maximum over all non-empty subsets taken in the given order of sum(scores) + sum(join of consecutive)."""
    n = len(segs_in_key_order)
    best = -math.inf
    # DP over "last chosen" is what the code does; the oracle enumerates all 2^n subsets instead
    J = [[join(segs_in_key_order[i], segs_in_key_order[j]) if i < j else None for j in range(n)] for i in range(n)]
    sc = [score_of(s) for s in segs_in_key_order]
    for m in range(1, 1 << n):
        tot = 0.0
        prev = None
        ok = True
        for i in range(n):
            if m >> i & 1:
                tot += sc[i]
                if prev is not None:
                    tot += J[prev][i]
                prev = i
        if tot > best:
            best = tot
    return best


def best_chain_dp(segs_in_key_order, score_of, join):
    """Independent O(n^2) model of the statement for larger n: best[i] = score[i] + max(0, max_{j<i} best[j] + join(j,i));
    cross-validated against best_subset_total on every small case of the same run."""
    n = len(segs_in_key_order)
    sc = [score_of(s) for s in segs_in_key_order]
    best = [0.0] * n
    for i in range(n):
        b = 0.0
        for j in range(i):
            v = best[j] + join(segs_in_key_order[j], segs_in_key_order[i])
            if v > b:
                b = v
        best[i] = b + sc[i]
    return max(best) if best else -math.inf
