"""Known findings and fixed defects: the committed file is read-only at run time.

KNOWN_FINDINGS.txt lines:
  finding: property=<id> key=<mechanism> repro=<path under /verif> :: <what fails>
  fixed: property=<id> <commit> repro=<path under /verif> :: <what failed>

A `finding` suppresses only violations whose mechanism key (decided by the check's classifier from the recorded
trace, never from input values) equals its key. A `fixed` entry suppresses nothing: its reproducer is replayed by
every run of the property's check and any violation it shows is reported as a new VIOLATION.
"""
import json
import os
import re
import traceback

from vf.core import VERIF, Shard

FILE = os.path.join(VERIF, 'KNOWN_FINDINGS.txt')


def entries(pid=None):
    out = []
    if not os.path.exists(FILE):
        return out
    for line in open(FILE):
        line = line.strip()
        if not line or line.startswith('#'):
            continue
        m = re.match(r'(finding|fixed): property=(\S+) (.*?) :: (.*)$', line)
        if not m:
            continue
        kind, prop, mid, what = m.groups()
        e = {'kind': kind, 'property': prop, 'what': what, 'key': None, 'repro': None, 'commit': None}
        for tok in mid.split():
            if tok.startswith('key='):
                e['key'] = tok[4:]
            elif tok.startswith('repro='):
                e['repro'] = tok[6:]
            else:
                e['commit'] = tok
        if pid is None or prop == pid:
            out.append(e)
    return out


def listed_findings(pid):
    return {e['key']: e for e in entries(pid) if e['kind'] == 'finding'}


def committed_spec(pid):
    cases = [e for e in entries(pid) if e['repro']]
    if not cases:
        return None
    return {'name': 'committed-reproducers', 'committed': cases}


def run_committed(mod, spec):
    sh = Shard()
    for e in spec['committed']:
        path = os.path.join(VERIF, e['repro'])
        try:
            w = json.load(open(path))
        except Exception as ex:
            sh.inconclusive.append('cannot load committed reproducer %s: %r' % (e['repro'], ex))
            continue
        case = dict(w['case'] if 'case' in w else w, workdir=spec['workdir'])
        sh.count('committed-reproducers-replayed')
        try:
            viol = mod.replay(case)
        except BaseException:
            sh.inconclusive.append('replay of %s raised in the harness: %s' % (e['repro'], traceback.format_exc()[-800:]))
            continue
        if e['kind'] == 'finding':
            if any(v['key'] == e['key'] for v in viol):
                sh.count('repro-still-fails:' + e['key'])
            for v in viol:      # same key -> known finding (decided by the parent); other key -> new violation
                sh.violation(v['key'], '[replay of %s] %s' % (e['repro'], v['what']), case)
        else:
            for v in viol:
                sh.violation('regression-of-fixed-defect:' + v['key'],
                             '[replay of %s, fixed in %s] %s' % (e['repro'], e['commit'], v['what']), case)
            if not viol:
                sh.count('fixed-reproducers-passing')
    return sh
