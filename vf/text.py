"""Independent CMAP / XMAP text handling (written from the file formats; imports nothing from the repository)."""
import re

CMAP_COLS = ['CMapId', 'ContigLength', 'NumSites', 'SiteID', 'LabelChannel', 'Position', 'StdDev', 'Coverage',
             'Occurrence']


def fmt1(x):
    return '%.1f' % x


def cmap_text(maps, rng=None, shuffle_rows=False, extra_cols=False, permute_cols=False):
    """maps: list of (id, length, [positions]); positions/length are written with one decimal."""
    cols = list(CMAP_COLS)
    if extra_cols:
        cols += ['GmeanSNR', 'lnSNRsd']
    if permute_cols and rng is not None:
        rng.shuffle(cols)
    rows = []
    for mid, length, pos in maps:
        n = len(pos)
        for k, p in enumerate(pos, 1):
            d = dict(CMapId=mid, ContigLength=fmt1(length), NumSites=n, SiteID=k, LabelChannel=1, Position=fmt1(p),
                     StdDev='0.0', Coverage='1.0', Occurrence='1.0', GmeanSNR='12.5', lnSNRsd='0.1')
            rows.append('\t'.join(str(d[c]) for c in cols))
        d = dict(CMapId=mid, ContigLength=fmt1(length), NumSites=n, SiteID=n + 1, LabelChannel=0,
                 Position=fmt1(length), StdDev='0.0', Coverage='1.0', Occurrence='1.0', GmeanSNR='0.0', lnSNRsd='0.0')
        rows.append('\t'.join(str(d[c]) for c in cols))
    if shuffle_rows and rng is not None:
        rng.shuffle(rows)
    head = '# CMAP File Version:\t0.1\n# Label Channels:\t1\n#h ' + '\t'.join(cols) + '\n#f ' + '\t'.join(
        'int' if c in ('CMapId', 'NumSites', 'SiteID', 'LabelChannel') else 'float' for c in cols) + '\n'
    return head + ''.join(r + '\n' for r in rows)


def parse_cmap(text):
    """-> {id: (end marker position as float, sorted label positions as floats)}; header-driven."""
    cols = None
    labels, ends = {}, {}
    for line in text.splitlines():
        if line.startswith('#h'):
            cols = line.split()[1:]
            continue
        if line.startswith('#') or not line.strip():
            continue
        f = line.split('\t')
        d = dict(zip(cols, f))
        i = int(d['CMapId'])
        if int(d['LabelChannel']) == 0:
            ends.setdefault(i, float(d['Position']))
        else:
            labels.setdefault(i, []).append(float(d['Position']))
    return {i: (ends.get(i), sorted(labels.get(i, []))) for i in set(ends) | set(labels)}


XMAP_COLS = ['XmapEntryID', 'QryContigID', 'RefContigID', 'QryStartPos', 'QryEndPos', 'RefStartPos', 'RefEndPos',
             'Orientation', 'Confidence', 'HitEnum', 'QryLen', 'RefLen', 'AlignedRest', 'LabelChannel', 'Alignment']
XMAP_TYPES = ['int', 'int', 'int', 'float', 'float', 'float', 'float', 'string', 'float', 'string', 'float', 'float',
              'string', 'int', 'string']
_FLOAT = re.compile(r'^-?\d+(\.\d+)?$')
_INT = re.compile(r'^-?\d+$')
_ALN = re.compile(r'^(\(\d+,\d+\))*$')


class XmapFormatError(Exception):
    pass


def parse_xmap(text, strict=True):
    """-> (info, records). records: list of dicts with typed fields; 'aln' list of (ref label, query label).
    strict: raise XmapFormatError when the file is not a well-formed XMAP as COMA writes it."""
    info = {'comments': [], 'h': None, 'f': None}
    recs = []
    lines = text.split('\n')
    if text and not text.endswith('\n'):
        if strict:
            raise XmapFormatError('file does not end with a newline')
    for ln in lines:
        if ln == '':
            continue
        if ln.startswith('#h'):
            info['h'] = ln.split('\t')[1:]
            if recs and strict:
                raise XmapFormatError('#h line after records')
            continue
        if ln.startswith('#f'):
            info['f'] = ln.split('\t')[1:]
            continue
        if ln.startswith('#'):
            info['comments'].append(ln)
            continue
        f = ln.split('\t')
        if len(f) != 15:
            raise XmapFormatError('record with %d fields: %r' % (len(f), ln[:200]))
        if strict:
            if info['h'] is None or info['f'] is None:
                raise XmapFormatError('record before #h/#f header lines')
            for i in (0, 1, 2, 13):
                if not _INT.match(f[i]):
                    raise XmapFormatError('field %s not an int: %r' % (XMAP_COLS[i], f[i]))
            for i in (3, 4, 5, 6, 10, 11):
                if not _FLOAT.match(f[i]):
                    raise XmapFormatError('field %s not a number: %r' % (XMAP_COLS[i], f[i]))
            if not _FLOAT.match(f[8]):
                raise XmapFormatError('Confidence not a number: %r' % f[8])
            if f[7] not in ('+', '-'):
                raise XmapFormatError('Orientation %r' % f[7])
            if f[12] not in ('True', 'False'):
                raise XmapFormatError('AlignedRest %r' % f[12])
            if not _ALN.match(f[14]):
                raise XmapFormatError('Alignment column malformed: %r' % f[14][:120])
        recs.append(dict(id=int(f[0]), q=int(f[1]), r=int(f[2]), qs=float(f[3]), qe=float(f[4]), rs=float(f[5]),
                         re=float(f[6]), ori=f[7], conf=float(f[8]), hit=f[9], ql=float(f[10]), rl=float(f[11]),
                         rest=f[12], ch=f[13], aln=[(int(a), int(b)) for a, b in re.findall(r'\((\d+),(\d+)\)', f[14])],
                         raw=f, line=ln))
    if strict:
        if info['h'] != XMAP_COLS:
            raise XmapFormatError('#h line %r' % (info['h'],))
        if info['f'] is None or len(info['f']) != len(XMAP_COLS):
            raise XmapFormatError('#f line %r' % (info['f'],))
    return info, recs


def record_lines(text, drop_entry_id=False):
    """Non-comment lines of an XMAP text (optionally without the running XmapEntryID)."""
    out = []
    for ln in text.split('\n'):
        if ln and not ln.startswith('#'):
            out.append(ln.split('\t', 1)[1] if drop_entry_id else ln)
    return out


def strip_args_echo(text):
    """XMAP text without the header lines that legitimately differ between runs: the '# coma ...' echo."""
    return '\n'.join(ln for ln in text.split('\n') if not ln.startswith('# coma '))


def vary_syntax(cmap, rng):
    """Equivalent spellings of the same CMAP content: CRLF line ends, comment / blank lines between data rows, extra
    header comments, no trailing newline. Returns (text, name of the variant)."""
    kind = rng.choice(['crlf', 'comments-between-rows', 'blank-lines', 'extra-header-comments', 'no-trailing-newline'])
    lines = cmap.split('\n')
    if kind == 'crlf':
        return cmap.replace('\n', '\r\n'), kind
    if kind == 'comments-between-rows':
        out = []
        for ln in lines:
            out.append(ln)
            if ln and not ln.startswith('#') and rng.random() < 0.1:
                out.append('# note')
        return '\n'.join(out), kind
    if kind == 'blank-lines':
        return cmap + '\n\n', kind
    if kind == 'extra-header-comments':
        return '# Nickase Recognition Site 1:\tCTTAAG\n# Number of Consensus Maps:\t3\n' + cmap, kind
    return cmap.rstrip('\n'), kind
