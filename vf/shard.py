import sys
from vf.core import shard_main

if __name__ == '__main__':
    shard_main(sys.argv[1:4])
