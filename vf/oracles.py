"""Pure oracles over independently parsed text and (for C04) over the objects handed to the writer.

Every function returns a list of (mechanism key, human text) - empty when the clause holds.
"""
import re

TOL = 0.051     # one-decimal formatting of coordinates


def matching(aln, ori, nref, nqry):
    """C01: one-to-one, collinear matching of existing labels. aln: list of (ref label, query label) in listed order."""
    e = []
    if not aln:
        return [('empty-record', 'record without any pair')]
    for r, q in aln:
        if not 1 <= r <= nref:
            e.append(('ref-label-out-of-range', 'reference label %d not in 1..%d' % (r, nref)))
            break
    for r, q in aln:
        if not 1 <= q <= nqry:
            e.append(('query-label-out-of-range', 'query label %d not in 1..%d' % (q, nqry)))
            break
    rr = [x[0] for x in aln]
    qq = [x[1] for x in aln]
    if len(set(rr)) != len(rr):
        e.append(('ref-label-repeated', 'reference label used twice: %s' % _dups(rr)))
    if len(set(qq)) != len(qq):
        e.append(('query-label-repeated', 'query label used twice: %s' % _dups(qq)))
    if any(b <= a for a, b in zip(rr, rr[1:])):
        e.append(('ref-not-ascending', 'reference labels not strictly ascending in listed order'))
    if ori == '+':
        if any(b <= a for a, b in zip(qq, qq[1:])):
            e.append(('query-not-increasing', "query labels not strictly increasing for '+'"))
    elif ori == '-':
        if any(b >= a for a, b in zip(qq, qq[1:])):
            e.append(('query-not-decreasing', "query labels not strictly decreasing for '-'"))
    else:
        e.append(('orientation', 'orientation %r' % ori))
    return e


def _dups(xs):
    seen, d = set(), []
    for x in xs:
        if x in seen:
            d.append(x)
        seen.add(x)
    return d[:5]


def valid_matching(aln, ori):
    rr = [x[0] for x in aln]
    qq = [x[1] for x in aln]
    return bool(aln) and all(b > a for a, b in zip(rr, rr[1:])) and \
        all((b > a) if ori == '+' else (b < a) for a, b in zip(qq, qq[1:]))


def fields(rec, refs, qs):
    """C02: record fields vs. the listed pairs and the input maps. refs/qs: {id: (end marker, positions)}."""
    e = []
    if rec['r'] not in refs:
        return [('unknown-reference-id', 'RefContigID %s is not an input map' % rec['r'])]
    if rec['q'] not in qs:
        return [('unknown-query-id', 'QryContigID %s is not an input map' % rec['q'])]
    rend, R = refs[rec['r']]
    qend, Q = qs[rec['q']]
    a = rec['aln']
    if abs(rec['rl'] - int(rend)) > TOL:
        e.append(('RefLen', 'RefLen %s but the reference end marker is at %s' % (rec['rl'], rend)))
    ql = Q[-1] - Q[0]
    if not (ql - TOL <= rec['ql'] <= ql + 1 + TOL):
        e.append(('QryLen', 'QryLen %s but last-first label distance is %s' % (rec['ql'], ql)))
    if abs(rec['rs'] - R[a[0][0] - 1]) > TOL:
        e.append(('RefStartPos', 'RefStartPos %s but first listed reference label %d is at %s' % (
            rec['rs'], a[0][0], R[a[0][0] - 1])))
    if abs(rec['re'] - R[a[-1][0] - 1]) > TOL:
        e.append(('RefEndPos', 'RefEndPos %s but last listed reference label %d is at %s' % (
            rec['re'], a[-1][0], R[a[-1][0] - 1])))
    ql_ = [x[1] for x in a]
    lo, hi = min(ql_), max(ql_)
    if rec['ori'] == '+':
        es, ee = Q[lo - 1] - Q[0], Q[hi - 1] - Q[0]
        if not rec['qs'] <= rec['qe']:
            e.append(('Qry-start-end-order', "QryStartPos %s > QryEndPos %s for '+'" % (rec['qs'], rec['qe'])))
    else:
        es, ee = Q[-1] - Q[lo - 1], Q[-1] - Q[hi - 1]
        if not rec['qs'] >= rec['qe']:
            e.append(('Qry-start-end-order', "QryStartPos %s < QryEndPos %s for '-'" % (rec['qs'], rec['qe'])))
    if abs(rec['qs'] - es) > TOL:
        e.append(('QryStartPos', 'QryStartPos %s, expected %s (outermost aligned query label %d of %d, %s strand)' % (
            rec['qs'], round(es, 1), lo, len(Q), rec['ori'])))
    if abs(rec['qe'] - ee) > TOL:
        e.append(('QryEndPos', 'QryEndPos %s, expected %s (outermost aligned query label %d of %d, %s strand)' % (
            rec['qe'], round(ee, 1), hi, len(Q), rec['ori'])))
    if rec['ori'] not in ('+', '-'):
        e.append(('Orientation', repr(rec['ori'])))
    return e


_OPS = re.compile(r'(\d+)([MDI])')


def hitenum_replay(hit, first, ori):
    ops = _OPS.findall(hit)
    if ''.join(n + o for n, o in ops) != hit:
        return None, ops
    r, q = first
    d = 1 if ori == '+' else -1
    out = []
    for n, o in ops:
        n = int(n)
        if n > 10 ** 7:
            return None, ops
        for _ in range(n):
            if o == 'M':
                out.append((r, q))
                r += 1
                q += d
            elif o == 'D':
                r += 1
            else:
                q += d
    return out, ops


def hitenum(hit, aln, ori):
    """C03: replaying the string from the first pair reproduces exactly the listed pairs; shape rules."""
    e = []
    if not aln:
        return e
    if not hit:
        return [('hitenum-empty', 'empty HitEnum for a record with %d pair(s)' % len(aln))]
    rp, ops = hitenum_replay(hit, tuple(aln[0]), ori)
    if rp is None:
        return [('hitenum-syntax', 'HitEnum %r is not (\\d+[MDI])+' % hit[:80])]
    if any(int(n) == 0 for n, _ in ops):
        e.append(('hitenum-zero-run', 'run of length 0 in %r' % hit[:80]))
    aln = [tuple(p) for p in aln]
    if rp != aln:
        e.append(('hitenum-replay', 'replay of %r from %s differs from the listed pairs: %s' % (
            hit[:60], aln[0], _firstdiff(rp, aln))))
    if ops[0][1] != 'M' or ops[-1][1] != 'M':
        e.append(('hitenum-ends', 'HitEnum %r does not start and end with M' % hit[:80]))
    if any(x[1] == y[1] for x, y in zip(ops, ops[1:])):
        e.append(('hitenum-adjacent', 'same operation in adjacent runs: %r' % hit[:80]))
    return e


def _firstdiff(a, b):
    for i, (x, y) in enumerate(zip(a, b)):
        if x != y:
            return 'index %d replay %s vs listed %s' % (i, x, y)
    return 'length %d vs %d' % (len(a), len(b))


def rescore(row, refs, qs, P, written_conf=None):
    """C04: recompute a row's confidence from the raw maps, each segment's peak position and the parameters the
    harness passed. row: the repository's AlignmentResultRow (read-only use of .segments[*].positions/.peak,
    .confidence, ids, strand)."""
    from src.alignment.alignment_position import AlignedPair, NotAlignedQueryPosition
    e = []
    R = refs[row.referenceId][1]
    Q = qs[row.queryId][1]
    rev = row.reverseStrand
    q0 = Q[0]
    last = Q[-1] - q0

    def qpos(site):
        return (last - (Q[site - 1] - q0)) if rev else (Q[site - 1] - q0)
    tot = 0.0
    for s in row.segments:
        pk = s.peak.position
        seen = set()
        prs = []
        for p in s.positions:
            if isinstance(p, AlignedPair):
                if not (1 <= p.reference.siteId <= len(R) and 1 <= p.query.siteId <= len(Q)):
                    e.append(('label-out-of-range', 'pair (%s,%s)' % (p.reference.siteId, p.query.siteId)))
                    continue
                off = qpos(p.query.siteId) - (R[p.reference.siteId - 1] - pk)
                if abs(off) > P['d'] + 1e-6:
                    e.append(('offset-exceeds-maxPairDistance', 'pair (%d,%d) offset %.1f > d=%s' % (
                        p.reference.siteId, p.query.siteId, off, P['d'])))
                if abs(off - p.queryShift) > 1e-6:
                    e.append(('recorded-offset-differs', 'pair (%d,%d): offset from raw maps %.3f, recorded queryShift %.3f'
                              % (p.reference.siteId, p.query.siteId, off, p.queryShift)))
                tot += P['sp'] - P['dp'] * abs(off)
                prs.append(p)
                for k in (('r', p.reference.siteId), ('q', p.query.siteId)):
                    if k in seen:
                        e.append(('label-counted-twice', 'label %s%d twice in one segment' % k))
                    seen.add(k)
            else:
                tot += P['su']
                pp = p.position
                k = ('q', pp.query.siteId) if isinstance(pp, NotAlignedQueryPosition) else ('r', pp.reference.siteId)
                if k in seen:
                    e.append(('label-counted-twice', 'label %s%d twice in one segment' % k))
                seen.add(k)
        if prs:
            # a label is inside the span when its coordinate lies strictly between the coordinates of the segment's
            # outermost paired labels (labels coincident with a boundary label are not "inside")
            rl = [p.reference.siteId for p in prs]
            lo, hi = R[min(rl) - 1], R[max(rl) - 1]
            for r in range(min(rl), max(rl) + 1):
                if lo < R[r - 1] < hi and ('r', r) not in seen:
                    e.append(('label-unaccounted', 'reference label %d inside the segment span is neither paired nor '
                                                   'penalised' % r))
            ql = [p.query.siteId for p in prs]
            lo, hi = sorted((Q[min(ql) - 1], Q[max(ql) - 1]))
            for q in range(min(ql), max(ql) + 1):
                if lo < Q[q - 1] < hi and ('q', q) not in seen:
                    e.append(('label-unaccounted', 'query label %d inside the segment span is neither paired nor '
                                                   'penalised' % q))
    if abs(tot - row.confidence) > 1e-6 * max(1.0, abs(tot)):
        e.append(('confidence-differs', 'recomputed %.4f, row.confidence %.4f' % (tot, row.confidence)))
    if written_conf is not None and abs(round(tot, 2) - written_conf) > 0.0101:
        e.append(('written-confidence-differs', 'recomputed %.2f, Confidence column %.2f' % (tot, written_conf)))
    return e


def row_pairs(row):
    return [(p.reference.siteId, p.query.siteId) for p in row.alignedPairs]
