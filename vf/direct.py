"""Direct drive of the real Aligner, wired as WorkflowCoordinatorFactory wires it."""
from vf import core

core.use_repo()


def make_aligner(P):
    from src.alignment.aligner import AlignerEngine, Aligner
    from src.alignment.alignment_position_scorer import AlignmentPositionScorer
    from src.alignment.segment_chainer import SegmentChainer, SequentialityScorer
    from src.alignment.segment_with_resolved_conflicts import AlignmentSegmentConflictResolver
    from src.alignment.segments_factory import AlignmentSegmentsFactory
    return Aligner(AlignmentPositionScorer(P['sp'], P['dp'], P['su']), AlignmentSegmentsFactory(P['ms'], P['bs']),
                   AlignerEngine(P['d']),
                   AlignmentSegmentConflictResolver(SegmentChainer(SequentialityScorer(P['sj'], P['ss']))))


def run_direct(case):
    """-> (row, reference map, query map)"""
    from src.correlation.optical_map import OpticalMap
    from src.correlation.peak import Peak
    R = OpticalMap(1, case['ref_len'], list(case['ref']))
    Q = OpticalMap(7, case['query_len'], list(case['query']), case.get('shift', 0))
    al = make_aligner(case['params'])
    peaks = [Peak(p, h) for p, h in case['peaks']]
    row = al.align(R, Q, peaks, case['rev'])
    return row, R, Q
