"""C01 - every reported alignment is a one-to-one, collinear matching of real labels."""
import os

from vf import core, gen, e2e, hooks, oracles, pipeline, direct, text
from vf.core import Shard, rng_for, h64

PROPERTY = 'C01'
KF = ('resolver-uncompared-neighbours',)
RULE = ('(a) end-to-end: seeded random reference sets (1-3 maps, 40-250 labels, optional tandem repeats) and 12 query '
        'molecules per run of classes clean/noisy/chimeric/indel/partial, all four output modes, non-default '
        'scoring/threshold parameters on 60 % of runs, run through the real pipeline (M-serial, plus an M-pool '
        'sample); every record of every file written, every row handed to the writer and every candidate of every '
        'AlignmentResultRowMessage is judged by the matching oracle on independently parsed CMAP text. '
        '(b) direct drive of the real Aligner.align with synthetic seed lists (ladders / random / near-duplicate peaks) '
        'on stretched, indel-containing and repetitive label data, both strands; (c) direct drive of the first/second-pass join '
        '(AlignmentResults.resolve) with the row of a whole molecule and the row of one of its fragments seeded at loci shifted by '
        'label spacings, repeats or random offsets - every joined row is judged. A case (record, candidate or '
        'direct call) is non-trivial when it has >= 2 non-empty segments, or is joined, second-pass or reverse-strand; '
        'distinct = distinct content hash of (pairs, strand, ids, file).')
ASSUMPTIONS = ['CMAP text written by the harness is the ground truth for label counts',
               'M-serial (p_imap replaced by an ordered serial map) is faithful to the pooled run; cross-checked on a '
               'sample of cases per shard by comparing record lines with an M-pool run',
               'violations whose resolver trace matches a listed known-finding mechanism are reported as KNOWN-FINDING']
MINIMUMS = {'records': {'quick': 1000, 'thorough': 20000}, 'candidates': {'quick': 2000, 'thorough': 40000},
            'direct-calls': {'quick': 5000, 'thorough': 100000}, 'multi-segment-rows': {'quick': 50, 'thorough': 500},
            'joined-records': {'quick': 10, 'thorough': 100}, 'second-pass-records': {'quick': 50, 'thorough': 500},
            'join-attempts': {'quick': 3000, 'thorough': 50000}, 'joined-rows-from-direct-drive': {'quick': 500, 'thorough': 8000}}
CLASSES = ['clean', 'noisy', 'noisy', 'chimeric', 'translocation', 'indel', 'partial', 'deletion-between-repeats']


def plan(tier, seed):
    if tier == 'quick':
        ne, ce, nd, cd = 16, 17, 16, 1000
    else:
        ne, ce, nd, cd = 64, 95, 32, 12500
    return ([{'name': 'e2e%d' % i, 'kind': 'e2e', 'seed': seed, 'shard': i, 'cases': ce} for i in range(ne)] +
            [{'name': 'dir%d' % i, 'kind': 'direct', 'seed': seed, 'shard': i, 'cases': cd} for i in range(nd)])


def run_shard(spec):
    sh = Shard()
    if spec['kind'] == 'e2e':
        for i in range(spec['cases']):
            rng = rng_for('C01e2e', spec['seed'], spec['shard'], i)
            if rng.random() < 0.1:
                case = gen.translocation_case(rng)
            elif rng.random() < 0.15:
                case = gen.long_molecule_case(rng, nq=rng.randint(6, 12))
                if rng.random() < 0.4:
                    case['params'].update(d=rng.choice([800, 3000]), ms=rng.choice([500, 1000, 2000]), sj=rng.choice([0.0, 0.5, 1.0]))
            else:
                case = gen.pipeline_case(rng, CLASSES)
            case['kind'] = 'e2e'
            case['gen'] = [spec['seed'], spec['shard'], i]
            core.isolated(lambda c, w, child: judge_e2e(c, w, child, pool=(i < 2)), sh, case, spec['workdir'])
    else:
        for i in range(spec['cases']):
            rng = rng_for('C01dir', spec['seed'], spec['shard'], i)
            case = gen.direct_align_case(rng)
            case['gen'] = [spec['seed'], spec['shard'], i]
            judge_direct(case, sh)
            judge_join(join_case(rng_for('C01join', spec['seed'], spec['shard'], i)), sh)
    if hooks.MONITOR_ERRORS:
        sh.inconclusive.append('monitor errors: %s' % hooks.MONITOR_ERRORS[:3])
    return sh


def check_records(obs, sh, files=None, rows_of=None):
    """File-level oracle over every record of every file."""
    viol = []
    for suf, recs in (files or obs.records).items():
        rows = (rows_of or obs.run.rows).get(suf)
        if rows is not None and len(rows) != len(recs) and suf not in obs.format_error:
            viol.append(('writer-rows-differ-from-records', '%d rows handed to the writer, %d records in file %r' % (
                len(rows), len(recs), suf), {'file': suf}))
        for idx, rec in enumerate(recs):
            sh.count('records')
            row = rows[idx] if rows is not None and idx < len(rows) else None
            nseg = len([s for s in row.segments if not s.empty]) if row is not None else 0
            joined = suf == '' and obs.case['mode'] in ('joined', 'all')
            if rec['rest'] == 'True':
                sh.count('second-pass-records')
            if joined:
                sh.count('joined-records')
            if nseg >= 2:
                sh.count('multi-segment-rows')
            if rec['ori'] == '-':
                sh.count('reverse-records')
            if nseg >= 2 or joined or rec['rest'] == 'True' or rec['ori'] == '-':
                sh.nt(['rec', suf, rec['q'], rec['r'], rec['ori'], rec['aln']])
            if rec['r'] not in obs.refs or rec['q'] not in obs.qs:
                viol.append(('record-names-unknown-map', 'record names ref %s / query %s' % (rec['r'], rec['q']),
                             e2e.rec_focus(suf, rec)))
                continue
            errs = oracles.matching(rec['aln'], rec['ori'], len(obs.refs[rec['r']][1]), len(obs.qs[rec['q']][1]))
            if row is not None and oracles.row_pairs(row) != rec['aln']:
                viol.append(('writer-pairs-differ-from-row', 'Alignment column %s... differs from the row\'s pairs %s...'
                             % (rec['aln'][:6], oracles.row_pairs(row)[:6]), e2e.rec_focus(suf, rec)))
            if errs:
                keys = e2e.attribute_row(obs, row) if row is not None else []
                kf = list(keys)
                key = kf[0] if kf else 'record:' + errs[0][0]
                viol.append((key, 'file %r query %s ref %s %s rest=%s: %s' % (
                    suf, rec['q'], rec['r'], rec['ori'], rec['rest'], '; '.join(t for _, t in errs)),
                    e2e.rec_focus(suf, rec)))
    return viol


def check_candidates(obs, sh):
    viol = []
    for ps, q, msgs in obs.cands:
        for m in msgs:
            row = m.alignment
            sh.count('candidates')
            pairs = oracles.row_pairs(row)
            if not pairs:
                sh.count('empty-candidates')
                continue
            nseg = len([s for s in row.segments if not s.empty])
            ori = '-' if row.reverseStrand else '+'
            if nseg >= 2 or ps >= 2 or row.reverseStrand:
                sh.nt(['cand', row.queryId, row.referenceId, ori, pairs])
            if nseg >= 2:
                sh.count('multi-segment-candidates')
            if row.referenceId not in obs.refs or row.queryId not in obs.qs:
                viol.append(('candidate-names-unknown-map', 'candidate ref %s query %s' % (row.referenceId, row.queryId),
                             {'query': row.queryId}))
                continue
            # candidates list pairs in segment (chain) order; the matching is judged in reference order
            errs = oracles.matching(sorted(pairs), ori, len(obs.refs[row.referenceId][1]), len(obs.qs[row.queryId][1]))
            if errs:
                keys = e2e.attribute_row(obs, row)
                kf = list(keys)
                key = kf[0] if kf else 'candidate:' + errs[0][0]
                viol.append((key, 'candidate of query %s pass %d on ref %s %s: %s' % (
                    row.queryId, ps, row.referenceId, ori, '; '.join(t for _, t in errs)),
                    {'query': row.queryId, 'pass': ps, 'pairs': pairs[:80]}))
    return viol


def judge_e2e(case, wd, sh, pool=False):
    obs = e2e.observe(case, wd)
    sh.evaluations += 1
    sh.count('runs')
    sh.count('mode:' + case['mode'])
    for c in case['qclass'].values():
        sh.count('class:' + c)
    if obs.run.error:
        # an abort is C07's subject; here it only means nothing could be observed for this case
        sh.count('aborted-runs')
        sh.count('abort:%s@%s' % (obs.run.error['type'], obs.run.error['frame']))
        return []
    viol = check_records(obs, sh) + check_candidates(obs, sh)
    if obs.trace is not None:
        sh.count('resolver-calls', obs.trace.n_resolve)
        sh.count('conflict-comparisons', obs.trace.n_check)
    if pool:
        prun = pipeline.run_inprocess(case, wd, tag='p', serial=False, cpus=3)
        sh.count('pool-runs')
        if prun.error:
            sh.inconclusive.append('M-pool run aborted where M-serial did not: %s' % prun.error['msg'])
        else:
            differs = False
            for suf in obs.run.files:
                if text.record_lines(prun.files.get(suf, '')) != text.record_lines(obs.run.files[suf]):
                    differs = True
                    sh.inconclusive.append('M-serial and M-pool outputs differ (file %r) - harness substitution not '
                                           'faithful, see C09' % suf)
            if differs:     # identical record lines were already judged (and attributed) above
                pobs = e2e.Obs()
                pobs.case, pobs.run, pobs.refs, pobs.qs, pobs.trace = case, prun, obs.refs, obs.qs, None
                precs = {}
                for suf, t in prun.files.items():
                    try:
                        precs[suf] = text.parse_xmap(t)[1]
                    except text.XmapFormatError:
                        precs[suf] = []
                viol += [(k, '[M-pool] ' + w, f) for k, w, f in check_records(pobs, sh, files=precs, rows_of={})]
            else:
                sh.count('pool-runs-identical-to-serial')
    for key, what, focus in viol:
        sh.violation(key, what, dict(pipeline.slim_case(case), kind='e2e', focus=focus))
    if len(sh.samples) < 2 and obs.records.get(''):
        r = obs.records[''][0]
        sh.sample({'kind': 'e2e record', 'mode': case['mode'], 'params': gen.argv_of(case['params']),
                   'query': r['q'], 'class': case['qclass'].get(str(r['q'])), 'ref': r['r'], 'ori': r['ori'],
                   'hit': r['hit'][:60], 'pairs': r['aln'][:12], 'n_pairs': len(r['aln']), 'verdict': 'valid matching'})
    return viol


def judge_direct(case, sh):
    with_trace = hooks.ResolverTrace()
    with with_trace.install():
        try:
            row, R, Q = direct.run_direct(case)
        except Exception as ex:
            sh.evaluations += 1
            sh.count('direct-calls')
            info = pipeline.error_info(ex)
            key = 'aligner-raises:%s@%s' % (info['type'], info['frame'])
            sh.violation(key, 'Aligner.align raised %s: %s' % (info['type'], info['msg']), case)
            return [(key, info['msg'])]
    sh.evaluations += 1
    sh.count('direct-calls')
    sh.count('peak-kind:' + case['peak_kind'])
    pairs = oracles.row_pairs(row)
    nseg = len([s for s in row.segments if not s.empty])
    sh.count('direct-nseg%d' % min(nseg, 5))
    if not pairs:
        sh.count('direct-empty-rows')
        return []
    ori = '-' if case['rev'] else '+'
    if nseg >= 2 or case['rev']:
        sh.nt(['direct', ori, pairs])
    shift = case.get('shift', 0)
    errs = oracles.matching(sorted(pairs), ori, len(case['ref']), len(case['query']) + shift)
    if any(q <= shift for _, q in pairs):
        errs.append(('query-label-out-of-range', 'query label below the fragment offset %d' % shift))
    out = []
    if errs:
        rec = with_trace.last
        keys = [k for k, _, _ in hooks.classify_resolver_conflicts(rec, rev=case['rev'])] if rec is not None else []
        kf = list(keys)
        key = kf[0] if kf else 'aligner-row:' + errs[0][0]
        what = 'Aligner.align(%d peaks, %s, rev=%s) returned an invalid matching: %s; segments %s' % (
            len(case['peaks']), case['peak_kind'], case['rev'], '; '.join(t for _, t in errs),
            [hooks.seg_pairs(s)[:12] for s in row.segments if not s.empty][:6])
        sh.violation(key, what, case)
        out.append((key, what))
    elif nseg >= 3 and len(sh.samples) < 4:
        sh.sample({'kind': 'direct Aligner.align', 'peaks': case['peaks'], 'rev': case['rev'], 'params': case['params'],
                   'segments': [hooks.seg_pairs(s)[:8] for s in row.segments if not s.empty], 'verdict': 'valid matching'},
                  limit=4)
    return out


def join_case(rng):
    """Hostile direct drive of the first/second-pass join: a whole-molecule row and the row of a tail/head fragment of
    the same molecule (label-number offset as getUnalignedFragments gives it) seeded at a shifted locus."""
    c = gen.direct_align_case(rng)
    n = len(c['query'])
    k = rng.randint(min(2, n - 1), max(2, n - 4))
    c['kind'] = 'join'
    c['shift'] = 0
    c['frag_from'] = k if rng.random() < 0.7 else 0
    c['frag_to'] = n if c['frag_from'] else rng.randint(min(4, n), n)
    base = c['peaks'][0][0]
    spac = [b - a for a, b in zip(c['ref'], c['ref'][1:])]
    deltas = [0, rng.choice(spac), -rng.choice(spac), rng.choice(spac) + rng.choice(spac), rng.randint(-60000, 60000), rng.randint(-3000, 3000)]
    c['peaks2'] = [[base + rng.choice(deltas), round(rng.uniform(10, 50), 3)] for _ in range(rng.randint(1, 3))]
    c['maxdiff'] = rng.choice([10 ** 9, 100000, 20000])
    return c


def judge_join(case, sh):
    from src.alignment.alignment_results import AlignmentResults
    from src.correlation.optical_map import OpticalMap
    from src.correlation.peak import Peak
    sh.evaluations += 1
    sh.count('join-drives')
    al = direct.make_aligner(case['params'])
    R = OpticalMap(1, case['ref_len'], list(case['ref']))
    Q = OpticalMap(7, case['query_len'], list(case['query']))
    F = OpticalMap(7, case['query_len'], list(case['query'][case['frag_from']:case['frag_to']]), case['frag_from'])
    try:
        row1 = al.align(R, Q, [Peak(p, h) for p, h in case['peaks']], case['rev'])
        row2 = al.align(R, F, [Peak(p, h) for p, h in case['peaks2']], case['rev']).setAlignedRest(True)
        if not row1.alignedPairs or not row2.alignedPairs:
            sh.count('join-drives-without-two-rows')
            return
        joined, separate = AlignmentResults.resolve([row1, row2], case['maxdiff'])
    except Exception as ex:
        info = pipeline.error_info(ex)
        sh.violation('join-raises:%s@%s' % (info['type'], info['frame']), 'joining two rows of one query raised %s: %s' % (info['type'], info['msg']), case)
        return
    sh.count('join-attempts')
    ori = '-' if case['rev'] else '+'
    for row in joined:
        sh.count('joined-rows-from-direct-drive')
        pairs = oracles.row_pairs(row)
        sh.nt(['join', ori, pairs])
        errs = oracles.matching(pairs, ori, len(case['ref']), len(case['query']))
        if errs:
            sh.violation('joined-row:' + errs[0][0], 'AlignmentResults.resolve joined two rows of one query into an invalid matching: %s | first %s... second %s... joined %s...' % (
                '; '.join(t for _, t in errs), oracles.row_pairs(row1)[-6:], oracles.row_pairs(row2)[:6], pairs[:40]), case)
    if not joined:
        sh.count('join-attempts-rejected')


def replay(case):
    sh = Shard()
    if case.get('kind') == 'join':
        judge_join(case, sh)
    elif case.get('kind') == 'direct':
        judge_direct(case, sh)
    else:
        judge_e2e(case, case['workdir'], sh, pool=False)
    return [{'key': v['key'], 'what': v['what']} for v in sh.violations]
