"""C19 - alignment comparison partitions keys; measures are bounded and reflexive."""
import glob
import os

from vf import core, pipeline
from vf.core import Shard, rng_for

PROPERTY = 'C19'
RULE = ('random pairs of alignment sets (0-7 alignments each over 5 query ids x 2 reference ids, so keys repeat inside '
        'a set; pair lists of 0/1/3/8/20 pairs with duplicated query labels on 15 % of steps; second set either '
        'independent or a thinned copy of the first), both values of combineMultipleQuerySources, given to the real '
        'AlignmentComparer.compare(A,B), compare(B,A) and compare(A,A) - ONE comparer object per combine mode is reused for all '
        'cases of a shard (as a batch tool would), and a list is also compared, shortened in place, restored and compared again; plus pairs of real XMAP files (COMA output vs the '
        'bundled RefAligner XMAP of data/NA12878_BSPQI). Oracle: rows <-> distinct keys one to one; overlapping + '
        'nonOverlapping + firstOnly + secondOnly = |keys(A) u keys(B)|; only-counts = set differences; identity and '
        'coverages (and averages) in [0,1]; self comparison all BOTH with identity 1 / coverage 1 / no exclusive pairs '
        'for non-empty alignments; swapping the inputs swaps first/second counts and per-row coverages. Non-trivial = '
        'both sets non-empty with at least one shared key; distinct by content hash.')
ASSUMPTIONS = ['identity itself is not required to be symmetric under swapping (difflib.SequenceMatcher is not); when '
               'its asymmetry changes which rows count as overlapping, the average-coverage swap clause is skipped']
MINIMUMS = {'compare-calls': {'quick': 8000, 'thorough': 200000}, 'shared-key-cases': {'quick': 3000, 'thorough': 60000},
            'self-rows': {'quick': 10000, 'thorough': 200000}, 'real-file-comparisons': 1}


def plan(tier, seed):
    n, c = (8, 1300) if tier == 'quick' else (32, 9500)
    return [{'name': 'r%d' % i, 'kind': 'random', 'seed': seed, 'shard': i, 'cases': c} for i in range(n)] + \
           [{'name': 'real', 'kind': 'real', 'seed': seed}]


def mk(q, r, pairs, rev):
    from src.correlation.bionano_alignment import BionanoAlignment
    from src.diagnostic.benchmark_alignment import BenchmarkAlignedPair, BenchmarkAlignmentPosition
    return BionanoAlignment(1, q, r, 0, 0, 0, 0, rev, 1.0, '', 1, 1,
                            [BenchmarkAlignedPair(BenchmarkAlignmentPosition(a, 0), BenchmarkAlignmentPosition(b, 0)) for a, b in pairs])


def rset(rng):
    out = []
    for _ in range(rng.randint(0, 7)):
        q, r, n = rng.randint(1, 5), rng.randint(1, 2), rng.choice([0, 1, 3, 8, 20])
        pairs = []
        a, b = rng.randint(1, 10), rng.randint(1, 10)
        for _ in range(n):
            pairs.append([a, b])
            if rng.random() < 0.15:
                pairs.append([a + 1, b])
            a += rng.randint(1, 2)
            b += rng.randint(1, 2)
        out.append([q, r, pairs, rng.random() < 0.5])
    return out


COMPARERS = {}


def judge(c, sh, A=None, B=None):
    from src.diagnostic.alignment_comparer import AlignmentComparer, AlignmentRowComparer, AlignmentRowComparisonResultType as T
    comp = COMPARERS.setdefault(c['combine'], AlignmentComparer(AlignmentRowComparer(c['combine'])))   # reused across cases
    if A is None:
        A = [mk(*x) for x in c['A']]
        B = [mk(*x) for x in c['B']]
    sh.evaluations += 1
    sh.count('compare-calls', 3)
    case = {k: c[k] for k in c if k != 'workdir'}
    v = lambda key, what: sh.violation(key, what + ' (combineMultipleQuerySources=%s)' % c['combine'], case)
    try:
        res, sw, self_ = comp.compare(A, B), comp.compare(B, A), comp.compare(A, A)
    except Exception as ex:
        info = pipeline.error_info(ex)
        v('compare-raises:%s@%s' % (info['type'], info['frame']), 'compare raised %s' % info['msg'])
        return
    ka = {(a.queryId, a.referenceId) for a in A}
    kb = {(a.queryId, a.referenceId) for a in B}
    if ka & kb:
        sh.count('shared-key-cases')
        sh.nt([c.get('A'), c.get('B'), c['combine']] if 'A' in c else [sorted(ka), sorted(kb)])
    if res.overlapping + res.nonOverlapping + res.firstOnly + res.secondOnly != len(ka | kb):
        v('counts-do-not-sum-to-keys', '%d+%d+%d+%d != %d distinct keys' % (res.overlapping, res.nonOverlapping, res.firstOnly, res.secondOnly, len(ka | kb)))
    if res.firstOnly != len(ka - kb) or res.secondOnly != len(kb - ka):
        v('only-counts-wrong', 'firstOnly %d secondOnly %d, set differences %d / %d' % (res.firstOnly, res.secondOnly, len(ka - kb), len(kb - ka)))
    keys = [(r.queryId, r.referenceId) for r in res.rows]
    if sorted(keys) != sorted(ka | kb):
        v('rows-not-one-per-key', 'row keys %s, keys %s' % (sorted(keys)[:10], sorted(ka | kb)[:10]))
    for r in res.rows:
        for nm, x in (('identity', r.identity), ('coverage1', r.alignment1Coverage), ('coverage2', r.alignment2Coverage)):
            if not 0 <= x <= 1:
                v('measure-out-of-range', '%s = %s for key %s' % (nm, x, (r.queryId, r.referenceId)))
        k = (r.queryId, r.referenceId)
        exp_t = T.BOTH if k in ka and k in kb else T.FIRST_ONLY if k in ka else T.SECOND_ONLY
        if r.type != exp_t:
            v('row-type-wrong', 'key %s classified %s, expected %s' % (k, r.type, exp_t))
    for nm, x in (('avgIdentity', res.avgOverlappingIdentity), ('avgCov1', res.avgOverlappingAlignment1Coverage), ('avgCov2', res.avgOverlappingAlignment2Coverage)):
        if not 0 <= x <= 1:
            v('average-out-of-range', '%s = %s' % (nm, x))
    if (sw.firstOnly, sw.secondOnly) != (res.secondOnly, res.firstOnly):
        v('swap-does-not-swap-only-counts', '(%d,%d) vs swapped (%d,%d)' % (res.firstOnly, res.secondOnly, sw.firstOnly, sw.secondOnly))
    if sw.overlapping + sw.nonOverlapping != res.overlapping + res.nonOverlapping:
        v('swap-changes-both-count', '%d vs %d' % (res.overlapping + res.nonOverlapping, sw.overlapping + sw.nonOverlapping))
    rd = {(r.queryId, r.referenceId): r for r in res.rows}
    for r in sw.rows:
        o = rd.get((r.queryId, r.referenceId))
        if o is not None and r.type == T.BOTH and o.type == T.BOTH:
            if abs(r.alignment1Coverage - o.alignment2Coverage) > 1e-9 or abs(r.alignment2Coverage - o.alignment1Coverage) > 1e-9:
                v('swap-does-not-swap-coverages', 'key %s: (%s,%s) vs swapped (%s,%s)' % ((r.queryId, r.referenceId), o.alignment1Coverage, o.alignment2Coverage, r.alignment1Coverage, r.alignment2Coverage))
    if sw.overlapping == res.overlapping and {(r.queryId, r.referenceId) for r in sw.rows if r.overlapping} == {(r.queryId, r.referenceId) for r in res.rows if r.overlapping}:
        if abs(sw.avgOverlappingAlignment1Coverage - res.avgOverlappingAlignment2Coverage) > 1e-9:
            v('swap-does-not-swap-average-coverage', '%s vs %s' % (res.avgOverlappingAlignment2Coverage, sw.avgOverlappingAlignment1Coverage))
    else:
        sh.count('swap-overlap-set-differs(asymmetric identity)')
    # the dict keeps the LAST alignment per key: self comparison is judged per row on that alignment
    for r in self_.rows:
        sh.count('self-rows')
        if r.type != T.BOTH:
            v('self-comparison-not-both', 'key %s type %s' % ((r.queryId, r.referenceId), r.type))
        elif r.alignment1.alignedPairs and (r.identity != 1 or r.alignment1Coverage != 1 or r.alignment2Coverage != 1 or r.alignment1ExclusivePairs or r.alignment2ExclusivePairs):
            v('self-comparison-not-identical', 'key %s identity %s coverages %s/%s exclusive %s/%s pairs %s' % (
                (r.queryId, r.referenceId), r.identity, r.alignment1Coverage, r.alignment2Coverage, r.alignment1ExclusivePairs[:3], r.alignment2ExclusivePairs[:3], r.alignment1.alignedPairs[:6]))
    if len(self_.rows) != len(ka):
        v('self-comparison-row-count', '%d rows for %d keys' % (len(self_.rows), len(ka)))
    # the same list object modified in place between two calls must be compared as it is now
    if A and 'A' in c:
        A2 = list(A)
        dropped = A2.pop()
        r1 = comp.compare(A2, B)
        A2.append(dropped)
        r2 = comp.compare(A2, B)
        if (r2.overlapping, r2.nonOverlapping, r2.firstOnly, r2.secondOnly) != (res.overlapping, res.nonOverlapping, res.firstOnly, res.secondOnly):
            v('result-depends-on-earlier-calls', 'compare(A,B) after the same list object was compared in a shorter state gives %s, a fresh comparison %s' % (
                (r2.overlapping, r2.nonOverlapping, r2.firstOnly, r2.secondOnly), (res.overlapping, res.nonOverlapping, res.firstOnly, res.secondOnly)))
        sh.count('in-place-modification-cases')
    if len(sh.samples) < 1 and len(ka & kb) >= 2:
        sh.sample({'A': c.get('A'), 'B': c.get('B'), 'combine': c['combine'],
                   'result': {'overlapping': res.overlapping, 'nonOverlapping': res.nonOverlapping, 'firstOnly': res.firstOnly, 'secondOnly': res.secondOnly,
                              'rows': [[r.queryId, r.referenceId, r.type.name, round(r.identity, 3), round(r.alignment1Coverage, 3), round(r.alignment2Coverage, 3)] for r in res.rows]}})


def run_real(spec, sh):
    """COMA output for the bundled sample vs the bundled RefAligner XMAP, through the project's own readers."""
    from src.parsers.xmap_reader import XmapReader
    d = os.path.join(core.REPO, 'data', 'NA12878_BSPQI')
    xm = sorted(glob.glob(os.path.join(d, '*.xmap')))
    rc = sorted(glob.glob(os.path.join(d, '*_r.cmap')))
    qc = sorted(glob.glob(os.path.join(d, '*_q.cmap')))
    if not (xm and rc and qc):
        sh.inconclusive.append('bundled sample data not found under %s' % d)
        return
    case = {'kind': 'real', 'ref_text': open(rc[0]).read(), 'query_text': open(qc[0]).read(), 'mode': 'best',
            'params': dict(__import__('vf.gen', fromlist=['x']).DEFAULTS), 'extra_argv': []}
    run = pipeline.run_inprocess(case, spec['workdir'], serial=False, cpus=8)
    if run.error:
        sh.inconclusive.append('COMA run on the bundled sample failed: %s' % run.error['msg'])
        return
    op = os.path.join(spec['workdir'], 'coma.xmap')
    open(op, 'w').write(run.files[''])
    with open(op) as f1, open(xm[0]) as f2:
        A = XmapReader().readAlignments(f1)
        B = XmapReader().readAlignments(f2)
    for comb in (True, False):
        for X, Y in ((A, B), (B, A), (A[:20], B[10:40])):
            judge({'kind': 'realpair', 'combine': comb}, sh, X, Y)
            sh.count('real-file-comparisons')
    sh.count('real-alignments', len(A) + len(B))


def run_shard(spec):
    sh = Shard()
    if spec['kind'] == 'real':
        run_real(spec, sh)
        return sh
    for i in range(spec['cases']):
        rng = rng_for('C19', spec['seed'], spec['shard'], i)
        A = rset(rng)
        if rng.random() < 0.7:
            B = rset(rng)
        else:
            B = [[a[0], a[1], [p for p in a[2] if rng.random() < 0.8], a[3]] for a in A]
            if rng.random() < 0.3:
                rng.shuffle(B)
        judge({'kind': 'sets', 'A': A, 'B': B, 'combine': rng.random() < 0.5}, sh)
    return sh


def replay(case):
    sh = Shard()
    if case.get('kind') == 'sets':
        judge(case, sh)
    else:
        run_real(case, sh)
    return [{'key': v['key'], 'what': v['what']} for v in sh.violations]
