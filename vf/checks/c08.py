"""C08 - output modes agree; joined records are justified by and faithful to their parts."""
from vf import core
from vf import e2e, gen, hooks, oracles, pipeline, text
from vf.core import Shard, rng_for

PROPERTY = 'C08'
RULE = ('inputs of 12 queries of classes partial/chimeric/indel/noisy (about half of the queries get a second-pass '
        'record, a fifth a join) on 1-3 references, -diff in {0, 5k, 20k, 100k, 500k}, scoring defaults or varied; each '
        'input is run in all four output modes (four executions) and the files are compared: all main = joined main; '
        'all _1/_2 = separate main/_1 with AlignedRest False/True; every single-pass record is either among the '
        'un-joined records or its query has exactly one joined record; each joined record has a first- and a '
        'second-pass record of that query on the same reference and strand with reference gap <= maxDifference; joined '
        'pairs are a subset of the union of the parts; when that union is a valid matching the joined record equals '
        'it; each best-mode record\'s pairs are a subset of the query\'s first u second-pass pairs. Non-trivial = input '
        'with >= 1 joined record or >= 1 join candidate rejected; distinct by content hash of the four main files.')
ASSUMPTIONS = ['joined != union with a valid union is classified from the parts\' segments (writer rows): when every '
               'missing pair belongs to a segment other than segments[0] of its part it is the listed finding '
               'join-first-segments-only; when the two parts overlap on the reference or query axis and every missing pair '
               'lies inside the overlapping stretch it is the listed finding join-overlap-resolved-by-trimming',
               'XmapEntryID is excluded from comparisons (running count)']
MINIMUMS = {'inputs': {'quick': 70, 'thorough': 1500}, 'joined-records': {'quick': 60, 'thorough': 1500},
            'second-pass-records': {'quick': 300, 'thorough': 6000}, 'union-valid-joins': {'quick': 30, 'thorough': 800},
            'join-candidates-rejected-by-gap': {'quick': 10, 'thorough': 150}}
KF = 'join-first-segments-only'
KF2 = 'join-overlap-resolved-by-trimming'


def plan(tier, seed):
    n, c = (16, 6) if tier == 'quick' else (64, 32)
    return [{'name': 's%d' % i, 'kind': 'e2e', 'seed': seed, 'shard': i, 'cases': c} for i in range(n)]


def strip(r):
    return r['raw'][1:]


def segpairs(row):
    return [hooks.seg_pairs(s) for s in row.segments]


def judge(case, wd, sh):
    slim = lambda focus=None: dict(pipeline.slim_case(case), kind='e2e', focus=focus)
    out, rows = {}, {}
    for mode in ['all', 'best', 'separate', 'joined']:
        run = (pipeline.run_inprocess if mode == 'all' else pipeline.run_forked)(dict(case, mode=mode), wd, tag=mode, serial=True)
        sh.evaluations += 1
        if run.error:
            sh.count('aborted-runs')
            sh.count('abort:%s@%s' % (run.error['type'], run.error['frame']))
            if run.error['type'].startswith('Harness'):
                sh.inconclusive.append('mode %s: %s' % (mode, run.error['msg']))
                return
            if out:      # another mode of the same input terminated normally: the modes do not report the same alignments
                sh.violation('mode-aborts-while-another-mode-succeeds:%s@%s' % (run.error['type'], run.error['frame']),
                             'mode %s aborted (%s: %s) although mode %s of the same input terminated normally' % (mode, run.error['type'], run.error['msg'], list(out)[0]), slim({'mode': mode}))
            return
        try:
            out[mode] = {suf: text.parse_xmap(t)[1] for suf, t in run.files.items()}
        except text.XmapFormatError:
            sh.count('malformed-files')
            return
        rows[mode] = run.rows
    sh.count('inputs')
    maxdiff = case['params']['diff']
    viol = []
    S = lambda recs: [strip(r) for r in recs]
    for suf in pipeline.expected_suffixes('all'):
        if suf not in out['all']:
            viol.append(('output-file-missing', 'all mode did not write file %r' % suf, None))
    if viol:
        sh.violation(viol[0][0], viol[0][1], slim())
        return
    if S(out['all']['']) != S(out['joined']['']):
        viol.append(('all-main-differs-from-joined-main', 'main file of all != main file of joined: %d vs %d records' % (len(out['all']['']), len(out['joined'][''])), None))
    if S(out['all']['_1']) != S(out['separate']['']):
        viol.append(('all_1-differs-from-separate-main', '_1 of all != main of separate: %d vs %d records' % (len(out['all']['_1']), len(out['separate'][''])), None))
    if S(out['all']['_2']) != S(out['separate'].get('_1', [])):
        viol.append(('all_2-differs-from-separate_1', '_2 of all != _1 of separate: %d vs %d records' % (len(out['all']['_2']), len(out['separate'].get('_1', []))), None))
    if any(r['rest'] != 'False' for r in out['all']['_1']):
        viol.append(('AlignedRest-flag', 'first-pass file of all mode carries AlignedRest True', None))
    if any(r['rest'] != 'True' for r in out['all']['_2']):
        viol.append(('AlignedRest-flag', 'second-pass file of all mode carries AlignedRest False', None))
    first = {r['q']: r for r in out['all']['_1']}
    second = {r['q']: r for r in out['all']['_2']}
    joined = {}
    for r in out['all']['']:
        if r['q'] in joined:
            viol.append(('two-joined-records-for-one-query', 'query %s has two joined records' % r['q'], {'query': r['q']}))
        joined[r['q']] = r
    unj = S(out['joined'].get('_1', []))
    sh.count('first-pass-records', len(first))
    sh.count('second-pass-records', len(second))
    sh.count('joined-records', len(joined))
    for nm, d in (('first', first), ('second', second)):
        for q, r in d.items():
            inun = strip(r) in unj
            inj = q in joined
            if inun == inj:
                viol.append(('single-pass-record-%s' % ('both-unjoined-and-joined' if inun else 'neither-unjoined-nor-joined'),
                             '%s-pass record of query %s is %s' % (nm, q, 'among the un-joined records AND its query has a joined record' if inun else
                                                                    'neither among the un-joined records nor part of a joined record'), {'query': q}))
    if len(unj) != len([1 for d in (first, second) for q in d if q not in joined]):
        viol.append(('unjoined-file-has-extra-records', 'un-joined file has %d records, expected %d' % (len(unj), len([1 for d in (first, second) for q in d if q not in joined])), None))
    # candidates that were not joined because of the gap (evidence that the eligibility rule is exercised)
    for q in set(first) & set(second):
        f, s = first[q], second[q]
        if q not in joined and f['r'] == s['r'] and f['ori'] == s['ori']:
            gap = abs(max(f['rs'], s['rs']) - min(f['re'], s['re']))
            if gap > maxdiff:
                sh.count('join-candidates-rejected-by-gap')
            else:
                sh.count('join-candidates-rejected-otherwise')
    wr_first = {r.queryId: r for r in rows['all'].get('_1', [])}
    wr_second = {r.queryId: r for r in rows['all'].get('_2', [])}
    for q, j in joined.items():
        focus = {'query': q, 'joined': j['aln'][:60]}
        if q not in first or q not in second:
            viol.append(('joined-record-without-both-parts', 'query %s has a joined record but no %s-pass record' % (q, 'first' if q not in first else 'second'), focus))
            continue
        f, s = first[q], second[q]
        if f['r'] != s['r'] or f['ori'] != s['ori'] or j['r'] != f['r'] or j['ori'] != f['ori']:
            viol.append(('joined-across-reference-or-strand', 'query %s: parts on ref %s%s / %s%s, joined on %s%s' % (q, f['r'], f['ori'], s['r'], s['ori'], j['r'], j['ori']), focus))
            continue
        gap = max(f['rs'], s['rs']) - min(f['re'], s['re'])
        if gap > maxdiff + 0.051:
            viol.append(('joined-beyond-maxDifference', 'query %s joined although the reference gap %.1f exceeds maxDifference %s' % (q, gap, maxdiff), focus))
        union = sorted(set(f['aln']) | set(s['aln']))
        if not set(j['aln']) <= set(union):
            viol.append(('joined-pairs-not-from-parts', 'query %s: joined record has pairs %s that are in neither part' % (q, sorted(set(j['aln']) - set(union))[:6]), focus))
        if oracles.valid_matching(union, f['ori']):
            sh.count('union-valid-joins')
            if sorted(j['aln']) != union:
                missing = set(union) - set(j['aln'])
                fr, sr = wr_first.get(q), wr_second.get(q)
                key = 'joined-differs-from-valid-union'
                if fr is not None and sr is not None:
                    fs = [x for x in segpairs(fr) if x]
                    ss = [x for x in segpairs(sr) if x]
                    later = set(p for x in fs[1:] for p in x) | set(p for x in ss[1:] for p in x)
                    if missing and missing <= later:
                        key = KF
                if key != KF and missing:
                    # the two parts overlap (the later one starts before the earlier one ends) and every missing pair lies
                    # inside that stretch: the join resolved the overlap by trimming one side, as conflict resolution does
                    A, B = (f, s) if f['aln'][0][0] <= s['aln'][0][0] else (s, f)
                    r_lo, r_hi = B['aln'][0][0], A['aln'][-1][0]
                    qa, qb = A['aln'][-1][1], B['aln'][0][1]
                    q_lo, q_hi = (qb, qa) if f['ori'] == '+' else (qa, qb)
                    in_ref = r_lo <= r_hi and all(r_lo <= r <= r_hi for r, _ in missing)
                    in_q = q_lo <= q_hi and all(q_lo <= qq <= q_hi for _, qq in missing)
                    if in_ref or in_q:
                        key = KF2
                viol.append((key, 'query %s (%s): the union of its first- and second-pass pairs is a valid matching of %d pairs but the joined record has %d; missing %s' % (
                    q, f['ori'], len(union), len(j['aln']), sorted(missing)[:8]), focus))
        else:
            sh.count('union-invalid-joins')
    bq = {}
    for r in out['best']['']:
        bq[r['q']] = r
        un = set(first.get(r['q'], {}).get('aln', [])) | set(second.get(r['q'], {}).get('aln', []))
        if not set(r['aln']) <= un:
            viol.append(('best-record-pairs-not-from-parts', 'best-mode record of query %s has pairs outside its first u second-pass pairs' % r['q'], {'query': r['q']}))
    if joined or sh.counters.get('join-candidates-rejected-by-gap'):
        sh.nt([S(out[m]['']) for m in gen.MODES])
    for key, what, focus in viol[:4]:
        sh.violation(key, what, slim(focus))
    if not viol and joined and len(sh.samples) < 2:
        q = next(iter(joined))
        sh.sample({'query': q, 'maxDifference': maxdiff, 'first-pass': first[q]['line'][:150], 'second-pass': second[q]['line'][:150],
                   'joined': joined[q]['line'][:150], 'verdict': 'joined = union of the parts'})


def run_shard(spec):
    sh = Shard()
    for i in range(spec['cases']):
        rng = rng_for('C08', spec['seed'], spec['shard'], i)
        x = rng.random()
        if x < 0.22:
            case = gen.translocation_case(rng)
        elif x < 0.38:
            case = gen.long_molecule_case(rng, nq=rng.randint(6, 10))
        else:
            case = gen.pipeline_case(rng, ['partial', 'partial', 'chimeric', 'translocation', 'indel', 'deletion-between-repeats', 'noisy'], param_prob=0.3,
                                     param_keys=('d', 'ms', 'bs', 'p'), ref_kw={'repeats': rng.random() < 0.2})
        case['params']['diff'] = rng.choice([100000, 100000, 20000, 5000, 500000, 0])
        case['gen'] = [spec['seed'], spec['shard'], i]
        core.isolated(judge, sh, case, spec['workdir'])
    return sh


def replay(case):
    sh = Shard()
    judge(case, case['workdir'], sh)
    return [{'key': v['key'], 'what': v['what']} for v in sh.violations]
