"""C15 - conflict resolution only trims inside the overlap and leaves no shared label."""
from vf import core
from vf import direct, e2e, gen, hooks, pipeline
from vf.core import Shard, rng_for

PROPERTY = 'C15'
KF = ('resolver-uncompared-neighbours',)
RULE = ('the real Aligner is driven with hostile seed lists (ladders of 1-8 peaks with steps 200-5000 bp around the true '
        'diagonal of stretched molecules, random peaks, near-duplicates) on real-looking label data with indels and '
        'tandem repeats, both strands, -d 300..3000, -ms/-bs/-sj/-ss varied, plus end-to-end runs (incl. long molecules '
        'with several indels); a trace installed from the harness records, per resolveConflicts call, the input list, '
        'the chain, identity and score of every position, every checkForConflicts(left,right) comparison with the '
        'lineage chain index -> current object, the conflicting sub-segments and the axis chosen, and the output. '
        'Oracle: (a) output[k].positions is a contiguous sub-run, by identity, of chain[k].positions; (b) no position '
        'was re-scored and output[k].segmentScore = sum of what is left; (c) no two output segments share a reference or '
        'query label or cross (strand from the enclosing Aligner.align); (d) every pair of chain[k] strictly before '
        'chain[k+1]\'s first pair and strictly after chain[k-1]\'s last pair on both axes is kept; also each direct '
        'a.checkForConflicts(b).resolveConflict() on consecutive chain members is judged by (a),(b). Non-trivial = call '
        'with >= 2 non-empty segments of which at least one was trimmed; distinct by content hash of the chain.')
ASSUMPTIONS = ['clause (c) violations whose trace matches a listed mechanism (resolver-uncompared-neighbours: the pair was '
               'never compared; resolver-offset-label-lists: compared, equal-length but different label lists) are '
               'reported as KNOWN-FINDING; every other (c) violation and all (a),(b),(d) violations are new']
MINIMUMS = {'resolve-calls': {'quick': 15000, 'thorough': 250000}, 'calls-with-2+-segments': {'quick': 3000, 'thorough': 50000},
            'calls-with-trimming': {'quick': 800, 'thorough': 12000}, 'comparisons': {'quick': 8000, 'thorough': 120000},
            'e2e-resolve-calls': {'quick': 2000, 'thorough': 30000}}


def plan(tier, seed):
    nd, cd, ne, ce = (12, 1500, 6, 10) if tier == 'quick' else (32, 12000, 16, 60)
    return ([{'name': 'dir%d' % i, 'kind': 'direct', 'seed': seed, 'shard': i, 'cases': cd} for i in range(nd)] +
            [{'name': 'e2e%d' % i, 'kind': 'e2e', 'seed': seed, 'shard': i, 'cases': ce} for i in range(ne)])


def before_both(p, q):
    return p.reference.position < q.reference.position and p.query.position < q.query.position


def judge_record(rec, sh, case, tag):
    """One ResolveRecord -> violations. case: callable giving the replayable case."""
    from src.alignment.alignment_position import AlignedPair
    sh.count('resolve-calls')
    sh.count(tag + '-resolve-calls')
    if rec.chain is None:
        return
    ch, segs = rec.chain, rec.output
    ne_in = [s for s in ch if not s.empty]
    if len(ne_in) >= 2:
        sh.count('calls-with-2+-segments')
    sh.count('comparisons', len(rec.events))
    if len(segs) != len(ch):
        sh.violation('output-length-differs-from-chain', '%d chain members, %d output segments' % (len(ch), len(segs)), case())
        return
    trimmed = False
    for k, (c, cpos, o) in enumerate(zip(ch, rec.chain_positions, segs)):
        if o.positions:
            index = {id(p): i for i, p in enumerate(cpos)}
            s = index.get(id(o.positions[0]))
            if s is None or s + len(o.positions) > len(cpos) or any(x is not y for x, y in zip(o.positions, cpos[s:s + len(o.positions)])):
                sh.violation('segment-not-a-contiguous-sub-run', 'output segment %d %s is not a contiguous sub-run (by identity) of chain member %s' % (
                    k, [hooks.pos_repr(p) for p in o.positions][:10], [hooks.pos_repr(p) for p in cpos][:14]), case())
                continue
        if len(o.positions) != len(cpos):
            trimmed = True
        if any(rec.scores.get(id(p)) != p.score for p in o.positions):
            sh.violation('position-rescored', 'a position of segment %d has a different score after resolution' % k, case())
        tot = sum(p.score for p in o.positions)
        if abs(o.segmentScore - tot) > 1e-6 * max(1.0, abs(tot)):
            sh.violation('segment-score-not-sum-of-remaining', 'segment %d: segmentScore %s, sum of its %d remaining positions %s' % (
                k, o.segmentScore, len(o.positions), tot), case())
        # (d) protected pairs are kept
        nxt = ch[k + 1] if k + 1 < len(ch) and not ch[k + 1].empty else None
        prv = ch[k - 1] if k > 0 and not ch[k - 1].empty else None
        kept = set(map(id, o.positions))
        for p in cpos:
            if isinstance(p, AlignedPair):
                prot = (nxt is None or before_both(p, nxt.startPosition)) and (prv is None or before_both(prv.endPosition, p))
                if prot and id(p) not in kept:
                    sh.violation('pair-outside-overlap-removed', 'segment %d lost pair (%d,%d) although it lies strictly before the next member\'s first pair %s and after the previous member\'s last pair %s' % (
                        k, p.reference.siteId, p.query.siteId, nxt and hooks.pos_repr(nxt.startPosition), prv and hooks.pos_repr(prv.endPosition)), case())
                    break
    if trimmed:
        sh.count('calls-with-trimming')
        if len(ne_in) >= 2:
            sh.nt([[hooks.seg_pairs(s) for s in ch], rec.rev])
    for key, txt, detail in hooks.classify_resolver_conflicts(rec):
        sh.violation(key, txt + ' | %s' % detail, case())
    if trimmed and len(sh.samples) < 2 and len(ne_in) >= 3 and not hooks.classify_resolver_conflicts(rec):
        sh.sample({'chain (pairs per member)': [hooks.seg_pairs(s)[:10] for s in ch][:5], 'reverse': rec.rev,
                   'comparisons': [{k: e.get(k) for k in ('l', 'r', 'type', 'axis', 'out')} for e in rec.events][:6],
                   'output': [hooks.seg_pairs(s)[:10] for s in segs][:5], 'verdict': 'clauses a-d hold'})


def judge_direct(case, sh):
    tr = hooks.ResolverTrace(on_record=lambda rec: judge_record(rec, sh, lambda: case, 'direct'))
    tr.keep_rows = False
    sh.evaluations += 1
    with tr.install():
        try:
            direct.run_direct(case)
        except Exception as ex:
            info = pipeline.error_info(ex)
            sh.violation('aligner-raises:%s@%s' % (info['type'], info['frame']), 'Aligner.align raised %s' % info['msg'], case)


def judge_e2e(case, wd, sh):
    slim = lambda: dict(pipeline.slim_case(case), kind='e2e')
    tr = hooks.ResolverTrace(on_record=lambda rec: judge_record(rec, sh, slim, 'e2e'))
    tr.keep_rows = False
    with tr.install():
        run = pipeline.run_inprocess(case, wd, serial=True)
    sh.evaluations += 1
    if run.error:
        sh.count('aborted-runs')


def run_shard(spec):
    sh = Shard()
    for i in range(spec['cases']):
        rng = rng_for('C15' + spec['kind'], spec['seed'], spec['shard'], i)
        if spec['kind'] == 'direct':
            judge_direct(gen.direct_align_case(rng), sh)
        else:
            if rng.random() < 0.3:
                case = gen.long_molecule_case(rng, nq=8)
                case['params'].update(d=rng.choice([800, 1500, 3000]))
            else:
                case = gen.pipeline_case(rng, ['noisy', 'indel', 'indel', 'chimeric', 'partial'], param_prob=0.6,
                                         param_keys=('d', 'ms', 'bs', 'sj', 'ss', 'p'), ref_kw={'repeats': rng.random() < 0.4})
            core.isolated(judge_e2e, sh, case, spec['workdir'])
    if hooks.MONITOR_ERRORS:
        sh.inconclusive.append('monitor errors: %s' % hooks.MONITOR_ERRORS[:3])
    return sh


def replay(case):
    sh = Shard()
    if case.get('kind') == 'direct':
        judge_direct(case, sh)
    else:
        judge_e2e(case, case['workdir'], sh)
    return [{'key': v['key'], 'what': v['what']} for v in sh.violations]
