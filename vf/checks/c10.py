"""C10 - a query's record is independent of the other molecules and of file order."""
import random

from vf import core
from vf import gen, pipeline, text
from vf.core import Shard, rng_for

PROPERTY = 'C10'
RULE = ('metamorphic: a base run (2-4 references, 10 queries of classes clean/noisy/chimeric/indel/partial, two of them '
        'with identical binned length but different label density, any output mode) is compared with follow-up runs on '
        'transformed inputs: (1) query molecules permuted and the rows of BOTH CMAP files shuffled; (2) a random subset '
        'of queries physically removed; (3) -qId subset vs physically restricted query file; (4) -rId subset vs '
        'physically restricted reference file; (5) reference molecules listed in another order / reversed rows; (6) '
        'unrelated queries added; (7) every query run alone. Records are compared per (file, query id), XmapEntryID '
        'excluded. Non-trivial = base run with >= 3 records; distinct by content hash of the base record set.')
ASSUMPTIONS = ['all runs in-process M-serial with -c 1: queries share one worker, which is the hostile case for cross-query state',
               'molecule ids are unique within a file']
MINIMUMS = {'base-runs': {'quick': 25, 'thorough': 600}, 'relations-checked': {'quick': 180, 'thorough': 4000},
            'records-compared': {'quick': 250, 'thorough': 6000}}


def plan(tier, seed):
    n, c = (16, 2) if tier == 'quick' else (64, 10)
    return [{'name': 's%d' % i, 'kind': 'mm', 'seed': seed, 'shard': i, 'cases': c} for i in range(n)]


def records(run):
    out = {}
    for suf, t in run.files.items():
        for r in text.parse_xmap(t)[1]:
            out.setdefault((suf, r['q']), []).append(r['raw'][1:])
    return out


def run(case, wd, tag, extra=None, ref_text=None, query_text=None, queries=None, refs=None):
    c = dict(case)
    if queries is not None:
        c['queries'] = queries
    if refs is not None:
        c['refs'] = refs
    c.pop('ref_text', None)
    c.pop('query_text', None)
    if ref_text is not None:
        c['ref_text'] = ref_text
    if query_text is not None:
        c['query_text'] = query_text
    c['extra_argv'] = list(extra or [])
    r = pipeline.run_forked(c, wd, tag=tag, serial=True)
    return r


def diff(a, b, limit=3):
    ks = [k for k in sorted(set(a) | set(b), key=str) if a.get(k) != b.get(k)]
    return ['%s: %s vs %s' % (k, [x[:9] for x in a.get(k, [])], [x[:9] for x in b.get(k, [])]) for k in ks[:limit]]


def judge(case, wd, sh):
    rng = random.Random(case['mm_seed'])
    slim = lambda rel: dict(pipeline.slim_case(case), kind='e2e', mm_seed=case['mm_seed'], relation=rel)
    base_run = run(case, wd, 'base')
    sh.evaluations += 1
    if base_run.error:
        sh.count('aborted-runs')
        return
    base = records(base_run)
    sh.count('base-runs')
    sh.count('records-compared', len(base))
    if len(base) >= 3:
        sh.nt(sorted(base.items(), key=str))
    qm, rm = [tuple(m) for m in case['queries']], [tuple(m) for m in case['refs']]
    qids = [m[0] for m in qm]

    def check(rel, got_run, expected, what):
        sh.count('relations-checked')
        sh.evaluations += 1
        if got_run.error and got_run.error['type'].startswith('Harness'):
            sh.inconclusive.append('follow-up run %s: %s' % (rel, got_run.error['msg']))
            return
        if got_run.error:
            sh.violation('relation-%s:run-aborts' % rel, '%s: follow-up run aborted: %s' % (what, got_run.error['msg']), slim(rel))
            return
        got = records(got_run)
        if got != expected:
            sh.violation('relation-%s' % rel, '%s: records differ: %s' % (what, '; '.join(diff(expected, got))), slim(rel))

    # 1 permuted molecules + shuffled rows of both files
    qm2, rm2 = qm[:], rm[:]
    rng.shuffle(qm2)
    rng.shuffle(rm2)
    check('permute-and-shuffle-rows', run(case, wd, 'perm', ref_text=text.cmap_text(rm2, rng=rng, shuffle_rows=True),
                                          query_text=text.cmap_text(qm2, rng=rng, shuffle_rows=True)), base,
          'queries and references permuted, rows of both CMAP files shuffled')
    # 2/3 subset removed physically vs -qId
    ids = sorted(rng.sample(qids, rng.randint(1, max(1, len(qids) - 2))))
    exp = {k: v for k, v in base.items() if k[1] in ids}
    phys = run(case, wd, 'sub', queries=[list(m) for m in qm if m[0] in ids])
    check('remove-queries', phys, exp, 'queries %s kept, the others physically removed' % ids)
    check('qId-filter', run(case, wd, 'qid', extra=['-qId'] + [str(i) for i in ids]), exp, '-qId %s' % ids)
    # 4 -rId vs physically restricted references
    rids = sorted(rng.sample([m[0] for m in rm], rng.randint(1, len(rm))))
    r4 = run(case, wd, 'r4', refs=[list(m) for m in rm if m[0] in rids])
    if not r4.error:
        check('rId-filter', run(case, wd, 'rid', extra=['-rId'] + [str(i) for i in rids]), records(r4), '-rId %s vs physically restricted reference file' % rids)
    # 5 references in another order, rows of the reference file reversed
    rtxt = text.cmap_text(rm)
    head = [ln for ln in rtxt.split('\n') if ln.startswith('#')]
    body = [ln for ln in rtxt.split('\n') if ln and not ln.startswith('#')]
    check('reference-rows-reversed', run(case, wd, 'rrev', ref_text='\n'.join(head + body[::-1]) + '\n'), base, 'rows of the reference file in reverse order')
    # 6 unrelated queries added
    extra_q = []
    for k in range(3):
        pos, length = gen.query_from_ref(rng, rng.choice(rm)[2], rng.choice(['noisy', 'clean']), [list(m) for m in rm])
        extra_q.append((max(qids) + 1 + k, length, pos))
    added = run(case, wd, 'add', queries=[list(m) for m in qm + extra_q])
    if not added.error:
        got = {k: v for k, v in records(added).items() if k[1] in qids}
        sh.count('relations-checked')
        if got != base:
            sh.violation('relation-add-queries', 'three unrelated queries added: records of the original queries differ: %s' % '; '.join(diff(base, got)), slim('add-queries'))
    # 7 each of three queries alone
    for qid in list(case.get('special', [])) + rng.sample(qids, min(1, len(qids))):
        check('query-alone', run(case, wd, 'alone', queries=[list(m) for m in qm if m[0] == qid]), {k: v for k, v in base.items() if k[1] == qid},
              'query %s run alone' % qid)
    if len(sh.samples) < 1 and len(base) >= 3:
        sh.sample({'mode': case['mode'], 'base records (file, query)': [list(k) for k in sorted(base, key=str)][:12],
                   'relations': ['permute-and-shuffle-rows', 'remove-queries %s' % ids, 'qId-filter', 'rId-filter %s' % rids,
                                 'reference-rows-reversed', 'add-queries', 'query-alone'], 'verdict': 'all follow-up record sets equal'})


def make_case(rng):
    case = gen.pipeline_case(rng, ['clean', 'noisy', 'chimeric', 'indel', 'partial'], nq=8, nref=rng.randint(2, 4), param_prob=0.2,
                             param_keys=('d', 'p', 'ms'))
    if rng.random() < 0.4:
        case['params']['p'] = 1
    # two queries with the same binned length but very different label density (cross-query state bait); in half
    # of the cases the references carry dense regular islands that compete with the true locus of the sparse query
    islands = rng.random() < 0.5
    if islands:
        for m in case['refs']:
            pos = m[2]
            base = pos[-1] + rng.randint(30000, 90000)
            for _ in range(rng.randint(2, 3)):
                step = rng.choice([2000, 2800, 3500])
                isl = [base + k * step for k in range(rng.randint(45, 60))]
                pos += isl
                base = isl[-1] + rng.randint(30000, 90000)
                for _ in range(rng.randint(5, 12)):
                    pos.append(base)
                    base += 2000 + rng.expovariate(1 / 25000)
            m[2] = sorted(set(round(x, 1) for x in pos))
            m[1] = round(m[2][-1] + 20000, 1)
    ref = rng.choice(case['refs'])[2]
    n = min(rng.randint(12, 20), len(ref) - 2)
    s = rng.randint(0, min(len(ref) - n - 1, 60))
    sub = [p - ref[s] for p in ref[s:s + n]]
    sparse = [x + (rng.gauss(0, 150) if 0 < i < len(sub) - 1 else 0) for i, x in enumerate(sub)]
    # 0-60 % extra labels: a sparse query whose raw correlation at its true locus is below that of an all-ones island
    sparse += [rng.uniform(sub[0], sub[-1]) for _ in range(rng.choice([rng.randint(0, 4), int(len(sub) * rng.uniform(0.3, 0.6))]))]
    sparse = sorted(sparse)
    if islands:
        step = rng.choice([2000, 2800, 3500])
        dense = [float(x) for x in range(0, int(sub[-1]), step)] + [sub[-1]]
    else:
        dense = sorted(set(sub + [rng.uniform(sub[0], sub[-1]) for _ in range(3 * len(sub))]))
    qid = max(m[0] for m in case['queries']) + 1
    case['special'] = []
    for pos in (dense, sparse):
        p2 = [round(x + 20.0, 1) for x in pos]
        case['queries'].append([qid, round(p2[-1] + 50, 1), p2])
        case['qclass'][str(qid)] = 'same-length-pair'
        case['special'].append(qid)
        qid += 1
    if rng.random() < 0.4:
        # a contig shorter than some partially aligned molecule of the file, with its own partially aligned molecule
        rid = max(m[0] for m in case['refs']) + 1
        spos = gen.gen_ref(rng, rng.randint(25, 40), mean=9000, mn=2000, repeats=False)
        case['refs'].append([rid, round(spos[-1] + 500, 1), spos])
        qid = max(m[0] for m in case['queries']) + 1
        for src in (spos, max(case['refs'], key=lambda m: m[1])[2]):
            pos, length = gen.query_from_ref(rng, src, 'partial', case['refs'])
            case['queries'].append([qid, length, pos])
            case['qclass'][str(qid)] = 'partial-on-short-or-long-contig'
            case['special'].append(qid)
            qid += 1
    rng.shuffle(case['queries'])
    case['mm_seed'] = rng.randint(0, 10 ** 9)
    return case


def run_shard(spec):
    sh = Shard()
    for i in range(spec['cases']):
        rng = rng_for('C10', spec['seed'], spec['shard'], i)
        case = make_case(rng)
        case['gen'] = [spec['seed'], spec['shard'], i]
        judge(case, spec['workdir'], sh)
    return sh


def replay(case):
    sh = Shard()
    judge(case, case['workdir'], sh)
    return [{'key': v['key'], 'what': v['what']} for v in sh.violations]
