"""C20 - indel calls are self-consistent and clustering conserves every call."""
import copy
import operator
import os
import types

from vf import core, gen, pipeline, text
from vf.core import Shard, rng_for

PROPERTY = 'C20'
RULE = ('(a) random lists of 0-14 indel calls of one type on 1-4 chromosomes with overlapping coordinates across '
        'chromosomes, near/far from the 30 kb blur, repeated query ids, sorted by (chromosome, RefStop) as the writer '
        'sorts them, given to the real cluster_indels; (b) insertion+deletion dictionaries given to write_indel_file and '
        'the written file parsed back; (c) both look_for_indels_in_breakage functions (sv/molecule_indels.py, '
        'sv/segment_indels.py) driven with synthetic alignments, maps and breakpoints, and (d) the whole '
        'molecule_indels flow on first/second/joined XMAP files of real all-mode COMA runs. Oracle: sum of Count = '
        'number of calls; cluster members are consecutive input calls with the same ids in order; one type and '
        'chromosome per cluster; cluster interval covers members; input not mutated; each un-merged call has '
        'Length = |ref gap| - |query gap| of two consecutive aligned pairs whose coordinates are looked up in the maps, '
        'and type insertion iff Length < 0. Non-trivial = list with >= 2 calls (a) / call list non-empty (c); distinct by hash.')
ASSUMPTIONS = ['an exception inside the sv scripts on a harvested real input is counted as "case not applicable" '
               '(the property is about calls that are produced), never as a violation',
               'cluster rows are [type, chromosome, RefStart, RefStop, ids joined by ",", QueryStart, QueryStop, Length, Count]']
MINIMUMS = {'cluster-calls': {'quick': 15000, 'thorough': 300000}, 'multi-chromosome-lists': {'quick': 5000, 'thorough': 100000},
            'files-written': {'quick': 500, 'thorough': 5000}, 'finder-calls-judged': {'quick': 2000, 'thorough': 30000},
            'real-flows': {'quick': 2, 'thorough': 10}}


def plan(tier, seed):
    n, c, nf, cf, ne, ce = (6, 3500, 4, 600, 6, 4) if tier == 'quick' else (24, 16000, 8, 5000, 12, 6)
    return ([{'name': 'cl%d' % i, 'kind': 'cluster', 'seed': seed, 'shard': i, 'cases': c} for i in range(n)] +
            [{'name': 'fi%d' % i, 'kind': 'finder', 'seed': seed, 'shard': i, 'cases': cf} for i in range(nf)] +
            [{'name': 'real%d' % i, 'kind': 'real', 'seed': seed, 'shard': i, 'cases': ce} for i in range(ne)])


def rand_calls(rng, typ, n=None):
    n = rng.randint(0, 14) if n is None else n
    nchrom = rng.randint(1, 4)
    span = rng.choice([60000, 300000, 3000000])
    calls = []
    for i in range(n):
        chrom = rng.randint(1, nchrom)
        rs = rng.randint(0, span)
        re_ = rs + rng.randint(1000, 50000)
        ln = rng.randint(2001, 90000) * (-1 if typ == 'insertion' else 1)
        qid = rng.choice([1000 + i, 1000 + i, rng.randint(1000, 1005)])
        calls.append([typ, chrom, rs, re_, qid, rng.randint(0, 1000), rng.randint(1000, 9000), ln])
    return sorted(calls, key=operator.itemgetter(1, 3))


def judge_clusters(inp, out, sh, case, where):
    """inp: sorted input calls (deep copy taken before the call); out: clusters."""
    n = len(inp)
    errs = []
    try:
        tot = sum(c[8] for c in out)
        if tot != n:
            errs.append(('calls-lost-or-invented', 'sum of Count %d != %d input calls' % (tot, n)))
        ids_out = [x for c in out for x in str(c[4]).split(',')] if out else []
        if sorted(ids_out) != sorted(str(c[4]) for c in inp):
            errs.append(('query-ids-not-conserved', 'ids in clusters %s vs input %s' % (sorted(ids_out)[:10], sorted(str(c[4]) for c in inp)[:10])))
        k = 0
        for c in out:
            members = inp[k:k + c[8]]
            k += c[8]
            if [str(m[4]) for m in members] != str(c[4]).split(','):
                errs.append(('cluster-members-not-consecutive-input', 'cluster ids %s vs next input ids %s' % (c[4], [m[4] for m in members])))
                break
            if any(m[0:2] != c[0:2] for m in members):
                errs.append(('cluster-mixes-type-or-chromosome', 'cluster %s has members %s' % (c[0:2], [m[0:2] for m in members])))
            if any(not (c[2] <= m[2] and m[3] <= c[3]) for m in members):
                errs.append(('cluster-interval-does-not-cover-member', 'cluster [%s,%s], members %s' % (c[2], c[3], [m[2:4] for m in members])))
    except Exception as ex:
        errs.append(('cluster-rows-malformed', repr(ex)))
    for key, what in errs[:2]:
        sh.violation(key, '%s: %s | input %s' % (where, what, [[c[1], c[2], c[3], c[4]] for c in inp][:14]), case)


def judge_cluster_case(c, sh):
    from write_indel_files import cluster_indels
    calls = copy.deepcopy(c['calls'])
    inp = copy.deepcopy(calls)
    sh.evaluations += 1
    sh.count('cluster-calls')
    if len({x[1] for x in calls}) > 1:
        sh.count('multi-chromosome-lists')
    if len(calls) >= 2:
        sh.nt(calls)
    try:
        out = cluster_indels(calls)
    except Exception as ex:
        info = pipeline.error_info(ex)
        sh.violation('cluster_indels-raises:' + info['type'], 'raised %s' % info['msg'], c)
        return
    if calls != inp:
        sh.violation('input-mutated', 'cluster_indels changed its input list', c)
    judge_clusters(inp, out, sh, c, 'cluster_indels')
    if len(sh.samples) < 1 and len(calls) >= 5 and len(out) >= 2 and len(out) < len(calls):
        sh.sample({'kind': 'cluster_indels', 'input [chrom, start, stop, id]': [[x[1], x[2], x[3], x[4]] for x in inp],
                   'clusters [chrom, start, stop, ids, count]': [[x[1], x[2], x[3], x[4], x[8]] for x in out]})


def judge_file_case(c, sh):
    from write_indel_files import write_indel_file
    d = {'insertion': copy.deepcopy(c['ins']), 'deletion': copy.deepcopy(c['dels'])}
    fn = os.path.join(c['workdir'], 'indels.txt')
    sh.evaluations += 1
    sh.count('files-written')
    case = {k: c[k] for k in ('kind', 'ins', 'dels')}
    try:
        write_indel_file(d, 'x.xmap', file_name=fn)
        lines = [ln.rstrip('\n').split('\t') for ln in open(fn) if not ln.startswith('#')]
    except Exception as ex:
        info = pipeline.error_info(ex)
        sh.violation('write_indel_file-raises:' + info['type'], 'raised %s' % info['msg'], case)
        return
    for typ, calls in (('insertion', c['ins']), ('deletion', c['dels'])):
        inp = sorted(copy.deepcopy(calls), key=operator.itemgetter(1, 3))
        rows = []
        for f in lines:
            if f[0] == typ:
                rows.append([f[0], int(f[1]), float(f[2]), float(f[3]), f[4], float(f[5]), float(f[6]), float(f[7]), int(f[8])])
        rows.sort(key=operator.itemgetter(1, 3))
        # the file is sorted by (chromosome, RefStop) over both types; within one type that is cluster order again
        judge_clusters(inp, rows, sh, case, 'file written by write_indel_file (%s rows)' % typ)


def mkmaps(rng):
    ref = [int(x) for x in gen.gen_ref(rng, rng.randint(20, 60), decimals=False, repeats=False)]
    qry = sorted(rng.randint(0, 400000) for _ in range(rng.randint(10, 40)))
    return ref, qry


def finder_case(rng):
    ref, qry = mkmaps(rng)
    k = rng.randint(2, min(len(ref), len(qry)))
    rs = sorted(rng.sample(range(1, len(ref) + 1), k))
    qs_ = sorted(rng.sample(range(1, len(qry) + 1), k))
    rev = rng.random() < 0.5
    pairs = [list(p) for p in zip(rs, reversed(qs_) if rev else qs_)]
    bi = rng.randint(0, k - 1)
    tuned = None
    if rng.random() < 0.4 and bi + 1 < k:
        # boundary sizes: make |ref gap| - |query gap| at the break EXACTLY a threshold value (or one off it) by moving the
        # query labels behind the break; integer coordinates, order and label count preserved
        target = rng.choice([1, -1]) * rng.choice([2000, 2000, 2001, 1999, 100000, 99999, 100001, 0, 2000.5])
        lo, hi = sorted((pairs[bi][1], pairs[bi + 1][1]))
        rgap = abs(ref[pairs[bi][0] - 1] - ref[pairs[bi + 1][0] - 1])
        qgap = rgap - target
        if qgap > hi - lo:
            a = qry[lo - 1]
            delta = a + qgap - qry[hi - 1]
            qry = qry[:lo] + [a + (j - (lo - 1)) for j in range(lo, hi - 1)] + [x + delta for x in qry[hi - 1:]]
            tuned = target
    return {'kind': 'finder', 'tuned': tuned, 'which': rng.choice(['molecule', 'segment']), 'ref': ref, 'qry': qry, 'pairs': pairs,
            'rev': rev, 'breaks': sorted({bi, rng.randint(0, k - 1)})}


def judge_calls(calls, ref, qry, pairs, sh, case, where):
    """Every produced call: Length = |ref gap| - |query gap| between two consecutive aligned pairs; type by sign."""
    coords = [(ref[r - 1], qry[q - 1]) for r, q in pairs]
    for typ, lst in calls.items():
        for call in lst:
            sh.count('finder-calls-judged')
            t, chrom, r_s, r_e, qid, q_s, q_e, ln = call[:8]
            exp = abs(r_s - r_e) - abs(q_s - q_e)
            key = None
            if abs(ln - exp) > 1e-6:
                key, what = 'call-length-inconsistent', 'Length %s but |ref gap| - |query gap| = %s' % (ln, exp)
            elif (t == 'insertion') != (ln < 0) or t != typ or t not in ('insertion', 'deletion'):
                key, what = 'call-type-inconsistent', 'type %s (listed under %s) with Length %s' % (t, typ, ln)
            elif r_s not in ref or r_e not in ref or q_s not in qry or q_e not in qry:
                key, what = 'call-flank-is-not-a-label', 'flank coordinates (%s,%s)-(%s,%s) are not label coordinates of the maps' % (r_s, q_s, r_e, q_e)
            elif not any(coords[i] == (r_s, q_s) and coords[i + 1] == (r_e, q_e) for i in range(len(coords) - 1)):
                # stricter than the statement (molecule_indels takes the first flank from the un-joined record): counted only
                sh.count('calls-whose-flanks-are-not-consecutive-pairs-of-the-record')
            if key:
                sh.violation(key, '%s: %s | call %s' % (where, what, call), case)
                return


def judge_finder_case(c, sh):
    import molecule_indels
    import segment_indels
    from src.correlation.bionano_alignment import BionanoAlignment
    from src.correlation.optical_map import OpticalMap
    from src.diagnostic.benchmark_alignment import BenchmarkAlignedPair, BenchmarkAlignmentPosition
    sh.evaluations += 1
    ref, qry, pairs = c['ref'], c['qry'], c['pairs']
    al = BionanoAlignment(1, 7, 3, 0, 0, 0, 0, c['rev'], 1.0, '', 1, 1,
                          [BenchmarkAlignedPair(BenchmarkAlignmentPosition(r, 0), BenchmarkAlignmentPosition(q, 0)) for r, q in pairs])
    rd = {3: OpticalMap(3, ref[-1] + 1, list(ref))}
    qd = {7: OpticalMap(7, qry[-1] + 1, list(qry))}
    case = {k: c[k] for k in c if k != 'workdir'}
    try:
        if c['which'] == 'molecule':
            bi = c['breaks'][0]
            if bi + 1 >= len(pairs):
                sh.count('finder-case-not-applicable')
                return
            calls = molecule_indels.look_for_indels_in_breakage({3: [al]}, rd, qd, {7: [bi, al.alignedPairs[bi]]})
        else:
            calls = segment_indels.look_for_indels_in_breakage({3: [al]}, rd, qd, {7: [[b, str(al.alignedPairs[b])] for b in c['breaks']]})
    except Exception as ex:
        sh.count('finder-raised:' + type(ex).__name__)
        return
    sh.count('finder-runs')
    if c.get('tuned') is not None:
        sh.count('finder-runs-with-gap-difference-tuned-to-a-threshold')
    if any(calls.values()):
        sh.nt(case)
    judge_calls(calls, ref, qry, pairs, sh, case, c['which'] + '_indels.look_for_indels_in_breakage')


def judge_real(case, wd, sh):
    """all-mode COMA run -> the molecule_indels flow on its three files."""
    import molecule_indels
    from read_files import read_all_files
    from write_indel_files import write_indel_file
    run = pipeline.run_inprocess(case, wd, serial=True)
    sh.evaluations += 1
    if run.error or not run.files.get(''):
        sh.count('real-case-not-applicable')
        return
    base = os.path.join(wd, 'x_o')
    rp, qp = os.path.join(wd, 'x_r.cmap'), os.path.join(wd, 'x_q.cmap')
    slim = dict(pipeline.slim_case(case), kind='real')
    try:
        ids = molecule_indels.get_joined_ids(base + '.xmap')
        if not ids:
            sh.count('real-case-no-joined-records')
            return
        sep = molecule_indels.get_separate_alignments(base + '_1.xmap', base + '_2.xmap', ids)
        brk = molecule_indels.find_conflict_place(base + '.xmap', sep)
        rdict, qdict, aln = read_all_files(reference_file=rp, alignment_file=base + '.xmap', query_file=qp)
        calls = molecule_indels.look_for_indels_in_breakage(aln, rdict, qdict, brk)
    except Exception as ex:
        sh.count('real-flow-raised:' + type(ex).__name__)
        return
    sh.count('real-flows')
    refs, qs = pipeline.parsed_inputs(case)
    _, recs = text.parse_xmap(run.files[''])
    byq = {r['q']: r for r in recs}
    for typ, lst in calls.items():
        for call in lst:
            rec = byq.get(call[4])
            if rec is None:
                sh.violation('call-for-unknown-query', 'call %s names a query without a joined record' % call, slim)
                continue
            judge_calls({typ: [call]}, refs[rec['r']][1], qs[rec['q']][1], rec['aln'], sh, slim, 'molecule_indels flow on real all-mode output')
    fn = os.path.join(wd, 'real_indels.txt')
    try:
        inp = {k: copy.deepcopy(v) for k, v in calls.items()}
        write_indel_file(calls, base + '.xmap', file_name=fn)
        lines = [ln.rstrip('\n').split('\t') for ln in open(fn) if not ln.startswith('#')]
        if sum(int(f[8]) for f in lines) != sum(len(v) for v in inp.values()):
            sh.violation('calls-lost-or-invented', 'real flow: file Counts sum to %d, %d calls were found' % (
                sum(int(f[8]) for f in lines), sum(len(v) for v in inp.values())), slim)
        sh.count('real-calls', sum(len(v) for v in inp.values()))
    except Exception as ex:
        sh.count('real-write-raised:' + type(ex).__name__)


def run_shard(spec):
    core.use_repo()
    sh = Shard()
    for i in range(spec['cases']):
        rng = rng_for('C20' + spec['kind'], spec['seed'], spec['shard'], i)
        if spec['kind'] == 'cluster':
            judge_cluster_case({'kind': 'cluster', 'calls': rand_calls(rng, rng.choice(['insertion', 'deletion']))}, sh)
            if i % 6 == 0:
                judge_file_case({'kind': 'file', 'ins': rand_calls(rng, 'insertion', rng.randint(0, 8)),
                                 'dels': rand_calls(rng, 'deletion', rng.randint(0, 8)), 'workdir': spec['workdir']}, sh)
        elif spec['kind'] == 'finder':
            judge_finder_case(finder_case(rng), sh)
        else:
            case = gen.pipeline_case(rng, ['indel', 'indel', 'partial', 'noisy'], nq=14, mode='all', param_prob=0.0,
                                     ref_kw={'repeats': False})
            core.isolated(judge_real, sh, case, spec['workdir'])
    return sh


def replay(case):
    core.use_repo()
    sh = Shard()
    k = case.get('kind')
    if k == 'cluster':
        judge_cluster_case(case, sh)
    elif k == 'file':
        judge_file_case(case, sh)
    elif k == 'finder':
        judge_finder_case(case, sh)
    else:
        judge_real(case, case['workdir'], sh)
    return [{'key': v['key'], 'what': v['what']} for v in sh.violations]
