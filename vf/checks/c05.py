"""C05 - at most one record per query: the best-scoring candidate, in query-id order."""
import collections

from vf import core
from vf import e2e, gen, hooks, oracles, pipeline, text
from vf.core import Shard, rng_for

PROPERTY = 'C05'
RULE = ('multi-reference inputs (1-4 references, tandem repeats in 50 %, so several good candidates exist), 12 queries '
        'of classes clean/noisy/chimeric/indel/partial, -p in {1,3,6,8}; every input is run in separate, all and best mode '
        '(three executions of the same input). Monitors: QryContigID/Confidence of every file; the message bus '
        '(InitialAlignmentMessage: all primary correlations of a query over all references and both strands; '
        'MultipleAlignmentResultRowsMessage: the candidates of one query in one pass), tagged with the pass by a wrapper '
        'on _WorkflowCoordinator.execute. Oracle: no query id twice in any file; candidates <= peaksCount and built '
        'from the peaksCount highest-scoring primary peaks over all references/strands (first pass: recomputed by an '
        'independent scan of every reference x strand through the real OpticalMap.getInitialAlignment, not taken from the bus); the first-pass record has the '
        'maximum confidence among the query\'s non-empty first-pass candidates and the pairs of a candidate attaining '
        'it; a query with a positive-confidence candidate has a record; second-pass file likewise per query (best over '
        'its fragments\' candidates); best mode: ids strictly ascending, the id set equals the ids with a first- or '
        'second-pass record in the all-mode run, and a query that is not joined gets the higher-confidence one of its '
        'first-/second-pass records (what the option help promises). Non-trivial = query with >= 2 non-empty candidates; distinct by hash.')
ASSUMPTIONS = ['exact ties in confidence between different candidates are counted and only the confidence is compared',
               'ties of primary peak scores at the peaksCount cut are skipped for the seed-origin clause']
MINIMUMS = {'first-pass-queries-judged': {'quick': 600, 'thorough': 15000}, 'queries-with-2+-nonempty-candidates': {'quick': 300, 'thorough': 4000},
            'second-pass-queries-judged': {'quick': 100, 'thorough': 1500}, 'best-mode-runs': {'quick': 60, 'thorough': 1500},
            'seed-origin-checked': {'quick': 600, 'thorough': 12000},
            'independent-seed-scans': {'quick': 500, 'thorough': 10000}}


def plan(tier, seed):
    n, c = (16, 6) if tier == 'quick' else (64, 30)
    return [{'name': 's%d' % i, 'kind': 'e2e', 'seed': seed, 'shard': i, 'cases': c} for i in range(n)]


def initial_extension(pc, sink):
    return hooks.initial_extension(pc, sink)


def qkey(q):
    return (q.moleculeId, q.shift, len(q.positions))


def judge(case, wd, sh):
    import contextlib
    slim = lambda focus=None: dict(pipeline.slim_case(case), kind='e2e', focus=focus)
    P = case['params']
    runs = {}
    cands, inits = [], []
    for mode in ('separate', 'all', 'best'):
        c = dict(case, mode=mode)
        if mode == 'separate':
            pc = hooks.PassCounter()
            with pc.install():
                run = pipeline.run_inprocess(c, wd, tag=mode, serial=True, extensions=[
                    hooks.candidates_extension(pc, cands), initial_extension(pc, inits)])
        else:
            run = pipeline.run_forked(c, wd, tag=mode, serial=True)
        sh.evaluations += 1
        sh.count('runs')
        if run.error:
            sh.count('aborted-runs')
            return
        runs[mode] = {suf: text.parse_xmap(t)[1] for suf, t in run.files.items()}
    viol = []
    # 1. no query twice in any file
    for mode, files in runs.items():
        for suf, recs in files.items():
            ids = [r['q'] for r in recs]
            d = [q for q, n in collections.Counter(ids).items() if n > 1]
            if d:
                viol.append(('query-twice-in-one-file', 'mode %s file %r: query id(s) %s have more than one record' % (mode, suf, d[:5]), {'mode': mode, 'file': suf}))
    # 2./3. candidates per query and pass
    first = {r['q']: r for r in runs['separate']['']}
    second = {r['q']: r for r in runs['separate'].get('_1', [])}
    primary = collections.defaultdict(list)
    for ps, q, rid, rev, peaks in inits:
        primary[(ps, qkey(q))] += [(s, rid, rev) for s, _ in peaks]
    # independent scan for the first pass: every reference x both strands through the real OpticalMap.getInitialAlignment,
    # built from the CMAP text and the command-line parameters (not from what the coordinator chose to look at)
    from src.correlation.optical_map import OpticalMap
    from src.correlation.sequence_generator import SequenceGenerator
    refs_t, qs_t = pipeline.parsed_inputs(case)
    g = SequenceGenerator(P['r1'], P['b1'])
    rmaps = [OpticalMap(i, int(v[0]), list(v[1])) for i, v in sorted(refs_t.items())]
    scan = {}
    for i, v in qs_t.items():
        qm = OpticalMap(i, int(v[0]), list(v[1])).trim()
        lst = []
        for r in rmaps:
            for rev in (False, True):
                ia = qm.getInitialAlignment(r, g, P['md'], P['p'], rev)
                lst += [(pk.score, r.moleculeId, rev) for pk in ia.peaks]
        scan[i] = sorted(lst, key=lambda x: -x[0])
    per_query = {1: collections.defaultdict(list), 2: collections.defaultdict(list)}
    for ps, q, msgs in cands:
        if len(msgs) > P['p']:
            viol.append(('more-candidates-than-peaksCount', 'query %s pass %d: %d candidates with -p %d' % (q.moleculeId, ps, len(msgs), P['p']), {'query': q.moleculeId}))
        allp = sorted(primary.get((ps, qkey(q)), []), key=lambda x: -x[0])
        if ps == 1 and q.moleculeId in scan:
            ind = scan[q.moleculeId]
            if len(ind) != len(allp) or any(abs(a[0] - b[0]) > 1e-9 for a, b in zip(ind, allp)):
                sh.count('bus-and-independent-scan-differ')
            allp = ind          # the independent scan decides
            sh.count('independent-seed-scans')
        if allp:
            top = allp[:P['p']]
            tie = len(allp) > P['p'] and abs(allp[P['p']][0] - allp[P['p'] - 1][0]) < 1e-12
            if not tie:
                sh.count('seed-origin-checked')
                got = sorted((m.correlation.reference.moleculeId, bool(m.correlation.reverseStrand)) for m in msgs)
                exp = sorted((rid, rev) for _, rid, rev in top)
                if got != exp:
                    viol.append(('candidates-not-from-the-top-peaks', 'query %s pass %d: candidates come from (ref, reverse) %s but the %d highest primary peaks over all references/strands are on %s' % (
                        q.moleculeId, ps, got, P['p'], exp), {'query': q.moleculeId, 'pass': ps}))
            else:
                sh.count('seed-ties-skipped')
        elif msgs:
            viol.append(('candidates-without-any-primary-peak', 'query %s pass %d has %d candidates but the scan finds no primary peak' % (q.moleculeId, ps, len(msgs)), {'query': q.moleculeId}))
        per_query[min(ps, 2)][q.moleculeId] += [(m.alignment.confidence, sorted(oracles.row_pairs(m.alignment)), m.alignment.referenceId, m.alignment.reverseStrand) for m in msgs]
    for ps, recs, name in ((1, first, 'first'), (2, second, 'second')):
        for qid, cl in per_query[ps].items():
            ne = [c for c in cl if c[1]]
            sh.count('%s-pass-queries-judged' % name)
            if len(ne) >= 2:
                sh.count('queries-with-2+-nonempty-candidates')
                sh.nt([qid, ps, [(round(c[0], 2), c[2], c[3]) for c in ne]])
            rec = recs.get(qid)
            focus = {'query': qid, 'pass': ps, 'candidates': [(round(c[0], 2), len(c[1]), c[2], c[3]) for c in cl]}
            if not ne:
                if rec is not None:
                    viol.append(('record-without-candidate', '%s-pass record of query %s but no non-empty candidate' % (name, qid), focus))
                continue
            best = max(c[0] for c in ne)
            if rec is None:
                # the per-call best must itself be non-empty to survive the filter; with several fragments (pass 2) any
                if best > 0 and (ps == 1):
                    viol.append(('query-with-candidate-has-no-record', 'query %s has a first-pass candidate of confidence %.2f but no record' % (qid, best), focus))
                continue
            if abs(rec['conf'] - round(best, 2)) > 0.0101:
                viol.append(('record-is-not-the-best-candidate', '%s-pass record of query %s has confidence %.2f, its candidates have %s' % (
                    name, qid, rec['conf'], [round(c[0], 2) for c in cl]), focus))
            elif not any(abs(c[0] - best) < 1e-9 and c[1] == sorted(rec['aln']) and c[2] == rec['r'] for c in ne):
                viol.append(('record-content-is-not-the-best-candidate', '%s-pass record of query %s does not list the pairs of a best candidate' % (name, qid), focus))
            if len([c for c in ne if abs(c[0] - best) < 1e-9]) > 1:
                sh.count('exact-confidence-ties')
    for qid, lst in scan.items():
        if lst and qid not in per_query[1]:
            viol.append(('query-with-seed-peaks-has-no-candidates', 'query %s has %d primary peaks over all references/strands but no candidate was built' % (qid, len(lst)), {'query': qid}))
    for qid in first:
        if qid not in per_query[1]:
            viol.append(('record-without-candidate-event', 'first-pass record of query %s without any candidate message' % qid, {'query': qid}))
    # 4. best mode vs all mode
    sh.count('best-mode-runs')
    bq = [r['q'] for r in runs['best']['']]
    if bq != sorted(set(bq)):
        viol.append(('best-not-in-ascending-query-id', 'best mode query ids %s' % bq[:20], {'mode': 'best'}))
    allids = {r['q'] for r in runs['all'].get('_1', [])} | {r['q'] for r in runs['all'].get('_2', [])}
    if set(bq) != allids:
        viol.append(('best-mode-id-set-differs', 'best mode has records for %s; all mode has first/second-pass records for %s' % (
            sorted(set(bq) - allids)[:6] or 'no extra ids', sorted(allids - set(bq))[:6] or 'no missing ids'), {'mode': 'best'}))
    a1 = {r['q']: r for r in runs['all'].get('_1', [])}
    a2 = {r['q']: r for r in runs['all'].get('_2', [])}
    joined_ids = {r['q'] for r in runs['all'].get('', [])}
    for r in runs['best']['']:
        if r['q'] in joined_ids:
            continue
        parts = [x for x in (a1.get(r['q']), a2.get(r['q'])) if x is not None]
        if not parts:
            continue
        sh.count('best-mode-unjoined-records-judged')
        top = max(p['conf'] for p in parts)
        if len(parts) == 2 and abs(parts[0]['conf'] - parts[1]['conf']) < 0.0101:
            sh.count('best-mode-pass-ties-skipped')
            continue
        if abs(r['conf'] - top) > 0.0101 or not any(p['raw'][2:12] + p['raw'][13:] == r['raw'][2:12] + r['raw'][13:] for p in parts if abs(p['conf'] - top) < 0.0101):
            viol.append(('best-mode-record-is-not-the-better-pass-record', 'query %s is not joined; best mode reports confidence %.2f on ref %s but its first-/second-pass records have %s' % (
                r['q'], r['conf'], r['r'], [(p['r'], p['conf'], p['rest']) for p in parts]), {'query': r['q'], 'mode': 'best'}))
    if runs['all'].get('_1') is not None and [r['raw'][1:] for r in runs['all']['_1']] != [r['raw'][1:] for r in runs['separate']['']]:
        viol.append(('all_1-differs-from-separate-main', 'first-pass file of all mode differs from the main file of separate mode', {'mode': 'all'}))
    for key, what, focus in viol[:4]:
        sh.violation(key, what, slim(focus))
    if not viol and len(sh.samples) < 2:
        q = next((q for q, cl in per_query[1].items() if len([c for c in cl if c[1]]) >= 2 and q in first), None)
        if q is not None:
            sh.sample({'query': q, 'peaksCount': P['p'], 'first-pass candidates (confidence, pairs, ref, reverse)': [(round(c[0], 2), len(c[1]), c[2], c[3]) for c in per_query[1][q]],
                       'record': [first[q]['r'], first[q]['ori'], first[q]['conf'], len(first[q]['aln'])]})


def run_shard(spec):
    sh = Shard()
    for i in range(spec['cases']):
        rng = rng_for('C05', spec['seed'], spec['shard'], i)
        case = gen.pipeline_case(rng, ['clean', 'noisy', 'noisy', 'chimeric', 'translocation', 'indel', 'partial'], nref=rng.randint(1, 4),
                                 param_prob=0.0, ref_kw={'repeats': rng.random() < 0.5})
        if rng.random() < 0.5:
            gen.add_nearfull(rng, case)
        if rng.random() < 0.4:
            gen.add_short_contig_first(rng, case)
        case['params']['p'] = rng.choice([1, 3, 6, 8])
        case['params']['md'] = rng.choice([20000, 20000, 5000])
        case['gen'] = [spec['seed'], spec['shard'], i]
        core.isolated(judge, sh, case, spec['workdir'])
    if hooks.MONITOR_ERRORS:
        sh.inconclusive.append('monitor errors: %s' % hooks.MONITOR_ERRORS[:3])
    return sh


def replay(case):
    sh = Shard()
    judge(case, case['workdir'], sh)
    return [{'key': v['key'], 'what': v['what']} for v in sh.violations]
