"""C02 - record fields agree with the listed pairs and with the input maps (all from text)."""
from vf import e2e, gen, oracles, pipeline
from vf.core import Shard

PROPERTY = 'C02'
RULE = ('end-to-end runs (M-serial) on generated reference sets with arbitrary ids, one-decimal coordinates, large '
        'query offsets and trailing lengths, classes clean/noisy/chimeric/indel/partial, four output modes, non-default '
        'parameters, plus one file of more than 1000 (quick) / 5000 (thorough) records; every record of every XMAP file is compared, from the file text only, with the CMAP text parsed '
        'by an independent parser (ids, RefLen, QryLen, Ref/Qry start/end, orientation ordering, XmapEntryID 1..n). '
        'Non-trivial = reverse-strand, second-pass (AlignedRest True) or joined record; distinct by content hash.')
ASSUMPTIONS = ['only records that satisfy C01 are judged (field semantics of an invalid matching are undefined); the '
               'number skipped is reported as skipped-invalid-matching',
               'QryLen may be last-first or last-first+1 (the +1 convention is pinned by C17)',
               'tolerance 0.051 for one-decimal formatting']
MINIMUMS = {'files-with-1000+-records': 1, 'records-judged': {'quick': 1000, 'thorough': 20000}, 'reverse-records': {'quick': 300, 'thorough': 4000},
            'second-pass-records': {'quick': 100, 'thorough': 1500}, 'joined-records': {'quick': 20, 'thorough': 300}}
CLASSES = ['clean', 'noisy', 'noisy', 'chimeric', 'translocation', 'indel', 'partial', 'partial']


def plan(tier, seed):
    n, c = (16, 18) if tier == 'quick' else (64, 95)
    return [{'name': 'big', 'kind': 'big', 'seed': seed, 'nq': 1010 if tier == 'quick' else 5100}] + \
        [{'name': 'e2e%d' % i, 'kind': 'e2e', 'seed': seed, 'shard': i, 'cases': c} for i in range(n)]


def judge(case, wd, sh):
    obs = e2e.observe(case, wd, trace=False, cands=False, serial=not case.get('pool'), cpus=8 if case.get('pool') else 1)
    if not e2e.note_run(case, obs, sh):
        return
    viol = []
    for suf, recs in obs.records.items():
        if len(recs) > 1000:
            sh.count('files-with-1000+-records')
        ids = [r['id'] for r in recs]
        if ids != list(range(1, len(recs) + 1)):
            viol.append(('XmapEntryID', 'XmapEntryID sequence %s in file %r' % (ids[:10], suf), {'file': suf}))
    for suf, idx, rec, row in e2e.each_record(obs):
        sh.count('records')
        if not e2e.valid_record(obs, rec):
            sh.count('skipped-invalid-matching')
            continue
        sh.count('records-judged')
        joined = suf == '' and case['mode'] in ('joined', 'all')
        if rec['ori'] == '-':
            sh.count('reverse-records')
        if rec['rest'] == 'True':
            sh.count('second-pass-records')
        if joined:
            sh.count('joined-records')
        if rec['ori'] == '-' or rec['rest'] == 'True' or joined:
            sh.nt([suf, rec['raw'][1:]])
        errs = oracles.fields(rec, obs.refs, obs.qs)
        for k, t in errs[:2]:
            viol.append(('field:%s' % k, 'file %r query %s ref %s %s rest=%s: %s' % (
                suf, rec['q'], rec['r'], rec['ori'], rec['rest'], t), e2e.rec_focus(suf, rec)))
        if not errs and len(sh.samples) < 3 and (rec['rest'] == 'True' or rec['ori'] == '-'):
            sh.sample({'file': suf, 'mode': case['mode'], 'record': rec['line'][:200],
                       'query_first_last_label': [obs.qs[rec['q']][1][0], obs.qs[rec['q']][1][-1]],
                       'ref_end_marker': obs.refs[rec['r']][0], 'verdict': 'all fields agree with the CMAP text'})
    for key, what, focus in viol:
        sh.violation(key, what, dict(pipeline.slim_case(case), kind='e2e', focus=focus))


def run_shard(spec):
    if spec['kind'] == 'big':
        from vf import core
        from vf.core import rng_for
        sh = Shard()
        case = gen.big_file_case(rng_for('C02big', spec['seed']), spec['nq'])
        case['kind'] = 'e2e'
        core.isolated(judge, sh, case, spec['workdir'])
        return sh
    return e2e.campaign('C02', spec, Shard(), judge, CLASSES)


def replay(case):
    sh = Shard()
    judge(case, case['workdir'], sh)
    return [{'key': v['key'], 'what': v['what']} for v in sh.violations]
