"""C17 - CMAP reading returns every labelled molecule exactly; trimming keeps geometry."""
import io

from vf import core
from vf import e2e, gen, hooks, pipeline, text
from vf.core import Shard, rng_for

PROPERTY = 'C17'
RULE = ('random CMAP files: 0-8 molecules, ids up to 10^7, 0-60 labels per molecule (unlabelled molecules included), '
        'one-decimal coordinates up to 10^7, rows shuffled on 60 % of files, extra and permuted columns (header-driven), equivalent spellings (CRLF, comment and blank lines between rows, extra header comments, no trailing newline), '
        'id filters with unknown ids; read with the real CmapReader.readQueries/readReferences (one reader object reads all files of a shard, as Program reads reference and query with one reader) and compared with the '
        'generator\'s dictionary model (one map per id with >= 1 label, ascending labels, length = int(end marker), '
        'molecules in ascending id, filter = exactly the listed ids); OpticalMap.trim(): first label 0, same count, '
        'same inter-label distances, length last-first+1, idempotent. Plus, end to end, the maps Program actually used '
        'are compared with the independent text parser. Non-trivial = file with >= 2 labelled molecules or shuffled '
        'rows or a filter; distinct by content hash of the file text.')
ASSUMPTIONS = ['an id filter given as an empty list means "all molecules" (argparse nargs=* with no values)']
MINIMUMS = {'files': {'quick': 2500, 'thorough': 40000}, 'trim-calls': {'quick': 3000, 'thorough': 50000},
            'shuffled-files': {'quick': 800, 'thorough': 10000}, 'filtered-reads': {'quick': 500, 'thorough': 8000},
            'e2e-maps-compared': {'quick': 200, 'thorough': 2000}}


def plan(tier, seed):
    n, c, ne, ce = (8, 400, 4, 8) if tier == 'quick' else (32, 1900, 8, 40)
    return ([{'name': 'f%d' % i, 'kind': 'files', 'seed': seed, 'shard': i, 'cases': c} for i in range(n)] +
            [{'name': 'e2e%d' % i, 'kind': 'e2e', 'seed': seed, 'shard': i, 'cases': ce} for i in range(ne)])


def make_file(rng):
    nm = rng.randint(0, 8)
    ids = rng.sample(range(1, 10 ** rng.randint(1, 7) + 10), nm)
    mols = []
    for i in ids:
        n = rng.choice([0, 0, 1, 2, 5, 30, 60])
        pos = sorted(round(rng.uniform(0, 10 ** rng.randint(2, 7)), 1) for _ in range(n))
        length = round((pos[-1] if pos else 0) + rng.uniform(0, 5000), 1)
        mols.append([i, length, pos])
    shuffle = rng.random() < 0.6
    txt = text.cmap_text([tuple(m) for m in mols], rng=rng, shuffle_rows=shuffle, extra_cols=rng.random() < 0.5,
                         permute_cols=rng.random() < 0.3)
    variant = None
    if rng.random() < 0.3:
        txt, variant = text.vary_syntax(txt, rng)
    flt = None
    if rng.random() < 0.5 and ids:
        flt = rng.sample(ids, rng.randint(1, len(ids))) + ([999999999] if rng.random() < 0.3 else [])
    return {'kind': 'file', 'mols': mols, 'text': txt, 'filter': flt, 'shuffled': shuffle, 'variant': variant,
            'which': rng.choice(['readQueries', 'readReferences'])}


READERS = {}


def judge_file(c, sh):
    from src.parsers.cmap_reader import CmapReader
    sh.evaluations += 1
    sh.count('files')
    if c['shuffled']:
        sh.count('shuffled-files')
    if c['filter']:
        sh.count('filtered-reads')
    if c.get('variant'):
        sh.count('syntax-variant:' + c['variant'])
    case = {k: c.get(k) for k in ('kind', 'text', 'filter', 'which', 'mols', 'shuffled', 'variant')}
    try:
        # one reader object per shard reads all files (Program reads the reference and the query file with one CmapReader)
        reader = READERS.setdefault('r', CmapReader()) if c.get('shared_reader', True) else CmapReader()
        got = getattr(reader, c['which'])(io.StringIO(c['text']), c['filter'])
    except Exception as ex:
        info = pipeline.error_info(ex)
        sh.violation('reader-raises:%s@%s' % (info['type'], info['frame']), '%s raised %s on a file with molecules %s filter %s' % (
            c['which'], info['msg'], [(m[0], len(m[2])) for m in c['mols']], c['filter']), case)
        return
    exp = {m[0]: (int(m[1]), list(m[2])) for m in c['mols'] if m[2] and (not c['filter'] or m[0] in c['filter'])}
    g = {m.moleculeId: (m.length, list(m.positions)) for m in got}
    labelled = len([m for m in c['mols'] if m[2]])
    if labelled >= 2 or c['shuffled'] or c['filter']:
        sh.nt(c['text'])
    if len(got) != len(g):
        sh.violation('molecule-returned-twice', 'ids %s' % [m.moleculeId for m in got], case)
    elif set(g) != set(exp):
        sh.violation('wrong-molecule-set', 'returned ids %s, expected %s (filter %s)' % (sorted(g), sorted(exp), c['filter']), case)
    elif g != exp:
        bad = [i for i in exp if g[i] != exp[i]][0]
        sh.violation('molecule-content-differs', 'molecule %s: returned (length %s, %d labels %s...), file has (length %s, %d labels %s...)' % (
            bad, g[bad][0], len(g[bad][1]), g[bad][1][:4], exp[bad][0], len(exp[bad][1]), exp[bad][1][:4]), case)
    elif [m.moleculeId for m in got] != sorted(g):
        sh.violation('molecules-not-in-ascending-id', 'order %s' % [m.moleculeId for m in got], case)
    for m in got:
        judge_trim(m, sh, case)
    if len(sh.samples) < 1 and labelled >= 2 and c['shuffled']:
        sh.sample({'kind': 'cmap file', 'first_lines': c['text'].split('\n')[2:7], 'filter': c['filter'],
                   'returned': [[m.moleculeId, m.length, len(m.positions)] for m in got]})


def judge_trim(m, sh, case):
    sh.count('trim-calls')
    t = m.trim()
    p = list(m.positions)
    tp = list(t.positions)
    err = None
    if tp and tp[0] != 0:
        err = 'first label at %s after trim' % tp[0]
    elif len(tp) != len(p):
        err = 'label count %d -> %d' % (len(p), len(tp))
    elif abs(t.length - (p[-1] - p[0] + 1)) > 1e-6:
        err = 'length %s, expected last-first+1 = %s' % (t.length, p[-1] - p[0] + 1)
    elif any(abs((a2 - a1) - (b2 - b1)) > 1e-6 for a1, a2, b1, b2 in zip(p, p[1:], tp, tp[1:])):
        err = 'inter-label distances changed'
    elif t.moleculeId != m.moleculeId:
        err = 'molecule id changed'
    else:
        tt = t.trim()
        if list(tt.positions) != tp or tt.length != t.length:
            err = 'trim is not idempotent: %s/%s -> %s/%s' % (tp[:3], t.length, list(tt.positions)[:3], tt.length)
    if err:
        sh.violation('trim:' + err.split(' ')[0], 'molecule %s positions %s...: %s' % (m.moleculeId, p[:5], err), case)


def judge_e2e(case, wd, sh):
    import src.program as prog
    seen = {}

    def make(orig):
        def init(self, args, extensions=None):
            orig(self, args, extensions)
            seen['p'] = self
        return init
    obs = e2e.observe(case, wd, trace=False, cands=False, extra_ctx=[hooks.wrapped(prog.Program, '__init__', make)])
    if not e2e.note_run(case, obs, sh) or 'p' not in seen:
        if obs.run.error and ('parsers/' in obs.run.error['frame'] or 'p' not in seen):
            sh.violation('program-cannot-read-valid-cmap:%s@%s' % (obs.run.error['type'], obs.run.error['frame']),
                         'Program aborted while reading well-formed CMAP files (reference and query with different column layouts / row orders): %s: %s' % (
                             obs.run.error['type'], obs.run.error['msg']), dict(pipeline.slim_case(case), kind='e2e'))
        return
    p = seen['p']
    slim = dict(pipeline.slim_case(case), kind='e2e')
    for name, maps, model, trimmed in (('reference', p.referenceMaps, obs.refs, False), ('query', p.queryMaps, obs.qs, True)):
        got = {m.moleculeId: m for m in maps}
        if set(got) != set(model):
            sh.violation('program-used-wrong-%s-set' % name, 'ids %s vs file %s' % (sorted(got), sorted(model)), slim)
            continue
        for i, m in got.items():
            sh.count('e2e-maps-compared')
            end, pos = model[i]
            if trimmed:
                exp_pos = [x - pos[0] for x in pos]
                exp_len = pos[-1] - pos[0] + 1
            else:
                exp_pos, exp_len = pos, int(end)
            if len(m.positions) != len(exp_pos) or any(abs(a - b) > 1e-6 for a, b in zip(m.positions, exp_pos)) or abs(m.length - exp_len) > 1e-6:
                sh.violation('program-%s-map-differs' % name, '%s %s: program has length %s labels %s..., file says length %s labels %s...' % (
                    name, i, m.length, list(m.positions)[:4], exp_len, exp_pos[:4]), slim)


def run_shard(spec):
    sh = Shard()
    for i in range(spec['cases']):
        rng = rng_for('C17' + spec['kind'], spec['seed'], spec['shard'], i)
        if spec['kind'] == 'files':
            judge_file(make_file(rng), sh)
        else:
            case = gen.pipeline_case(rng, ['clean', 'noisy'], nq=6, param_prob=0.0)
            if rng.random() < 0.7:      # shuffled rows / extra columns in the files the program reads
                case['ref_text'] = text.cmap_text([tuple(m) for m in case['refs']], rng=rng, shuffle_rows=True, extra_cols=rng.random() < 0.5)
                case['query_text'] = text.cmap_text([tuple(m) for m in case['queries']], rng=rng, shuffle_rows=True, permute_cols=rng.random() < 0.3)
            core.isolated(judge_e2e, sh, case, spec['workdir'])
    if hooks.MONITOR_ERRORS:
        sh.inconclusive.append('monitor errors: %s' % hooks.MONITOR_ERRORS[:3])
    return sh


def replay(case):
    sh = Shard()
    if case.get('kind') == 'file':
        judge_file(case, sh)
    else:
        judge_e2e(case, case['workdir'], sh)
    return [{'key': v['key'], 'what': v['what']} for v in sh.violations]
