"""C11 - mirroring a query mirrors its first-pass alignment."""
from vf import core
from vf import gen, hooks, oracles, pipeline, text
from vf.core import Shard, rng_for

PROPERTY = 'C11'
RULE = ('references and queries on a coordinate lattice commensurate with both correlation resolutions (step 1400 at '
        'the defaults; also -r1/-r2 = 700/100 and 1000/50 with steps 700 and 1000; in a share of cases a coarser '
        'lattice of 3x the step), 1-2 references, queries = interior windows, clean or noisy (dropped labels, '
        'lattice-aligned extra labels, lattice-aligned indels so that multi-segment chains occur), first label at 0 or '
        'at a lattice offset, unlabelled tail of 1-3 steps; every query q is placed in the same run as its mirror image '
        '(positions L-x), -d below half the lattice step, default or varied -ms/-sj/-dp/-bs/-p (single-pair segments and cheap joins become possible), separate mode. Oracle: both first-pass records absent, or both '
        'present with opposite Orientation, the same reference, the same reference labels, query label k <-> N+1-k, and '
        'Confidence equal to the cent. Non-trivial = pair with both records present; distinct by content hash.')
ASSUMPTIONS = ['pairs in which two different candidates of a query tie exactly in confidence are skipped and counted '
               '(selection between equals legitimately depends on strand order)',
               'likewise pairs in which the peaksCount-th and the next primary peak of a query have the same score (the two '
               'strands of a nearly palindromic molecule): which of them becomes a seed depends on strand order']
MINIMUMS = {'mirror-pairs': {'quick': 900, 'thorough': 15000}, 'pairs-with-records': {'quick': 700, 'thorough': 12000},
            'multi-segment-pairs': {'quick': 8, 'thorough': 150}, 'noisy-pairs': {'quick': 400, 'thorough': 8000}}


def plan(tier, seed):
    n, c = (16, 10) if tier == 'quick' else (64, 50)
    return [{'name': 's%d' % i, 'kind': 'lat', 'seed': seed, 'shard': i, 'cases': c} for i in range(n)]


def make_case(rng):
    r1, r2 = rng.choice([(1400, 100), (1400, 100), (700, 100), (1000, 50)])
    step = r1 * rng.choice([1, 1, 3])
    refs = []
    for i in range(rng.randint(1, 2)):
        pos = []
        p = rng.randint(1, 20) * step
        for _ in range(rng.randint(60, 200)):
            pos.append(float(p))
            p += step * rng.choice([2, 3, 4, 5, 6, 8, 10, 14])
        refs.append([i + 1, float(pos[-1] + step * rng.randint(1, 5)), pos])
    queries, pairs, qclass = [], [], {}
    for j in range(8):
        ref = rng.choice(refs)[2]
        n = rng.randint(8, 40)
        s = rng.randint(0, len(ref) - n - 1)
        sub = ref[s:s + n]
        noisy = rng.random() < 0.7
        q = []
        for p in sub:
            if noisy and rng.random() < 0.12:
                continue
            q.append(p - sub[0])
            if noisy and rng.random() < 0.08:
                q.append(p - sub[0] + step)
        if noisy and rng.random() < 0.5 and len(q) > 6:
            k = rng.choice([len(q) // 2, rng.randint(3, len(q) - 3)])
            dd = step * rng.choice([rng.randint(-8, 8), rng.randint(-30, 30)])
            q = q[:k] + [p + dd for p in q[k:]]
        q = sorted(set(x for x in q if x >= 0))
        if len(q) < 3:
            continue
        q = [x - q[0] for x in q]
        off = step * rng.choice([0, 0, 1, 5])
        q = [x + off for x in q]
        L = q[-1] + step * rng.randint(1, 3)
        m = sorted(L - x for x in q)
        a, b = 100 + 2 * j, 101 + 2 * j
        if rng.random() < 0.5:          # which of the two comes first in the file must not matter
            queries += [[a, float(L), q], [b, float(L), m]]
        else:
            queries += [[b, float(L), m], [a, float(L), q]]
        pairs.append([a, b, len(q), noisy])
        qclass[str(a)] = qclass[str(b)] = 'lattice-noisy' if noisy else 'lattice-clean'
    P = dict(gen.DEFAULTS)
    P['r1'], P['r2'] = r1, r2
    P['md'] = max(20000, r1)
    P['d'] = rng.choice([100, 300, step // 2 - 50, step // 2 - 1])
    if rng.random() < 0.5:
        P['ms'] = rng.choice([1000, 900, 500, 2000])
        P['sj'] = rng.choice([1.0, 0.01, 0.0, 2.0])
        P['dp'] = rng.choice([1.0, 0.0, 2.0])
        P['bs'] = rng.choice([1200, 600, 0])
        P['p'] = rng.choice([3, 1, 6])
    return {'refs': refs, 'queries': queries, 'qclass': qclass, 'params': P, 'mode': 'separate', 'mirror_pairs': pairs}


def judge(case, wd, sh):
    cands, inits = [], []
    pc = hooks.PassCounter()
    with pc.install():
        run = pipeline.run_inprocess(case, wd, serial=True, extensions=[hooks.candidates_extension(pc, cands),
                                                                         hooks.initial_extension(pc, inits)])
    sh.evaluations += 1
    if run.error:
        sh.count('aborted-runs')
        sh.count('abort:%s@%s' % (run.error['type'], run.error['frame']))
        return
    rows = {r['q']: (i, r) for i, r in enumerate(text.parse_xmap(run.files[''])[1])}
    wrows = run.rows.get('', [])
    ties = set()
    for ps, q, msgs in cands:
        if ps != 1:
            continue
        ne = [m.alignment for m in msgs if m.alignment.alignedPairs]
        if ne:
            best = max(a.confidence for a in ne)
            tops = [a for a in ne if abs(a.confidence - best) < 1e-9]
            if len({(a.referenceId, a.reverseStrand, tuple(oracles.row_pairs(a))) for a in tops}) > 1:
                ties.add(q.moleculeId)
    # seed-score ties at the peaksCount cut: which of two equally scored primary peaks (e.g. the two strands of a nearly
    # palindromic molecule) becomes a seed legitimately depends on strand order
    import collections
    allpeaks = collections.defaultdict(list)
    for ps, q, rid, rev, peaks in inits:
        if ps == 1:
            allpeaks[q.moleculeId] += [s for s, _ in peaks]
    P_ = case['params']['p']
    seed_ties = set()
    for qid, sc in allpeaks.items():
        sc = sorted(sc, reverse=True)
        if len(sc) > P_ and abs(sc[P_ - 1] - sc[P_]) < 1e-9:
            seed_ties.add(qid)
    for a, b, N, noisy in case['mirror_pairs']:
        sh.count('mirror-pairs')
        if noisy:
            sh.count('noisy-pairs')
        ra, rb = rows.get(a), rows.get(b)
        if ra is None and rb is None:
            sh.count('both-absent')
            continue
        if a in ties or b in ties:
            sh.count('exact-confidence-ties-skipped')
            continue
        if a in seed_ties or b in seed_ties:
            sh.count('seed-score-ties-at-the-cut-skipped')
            continue
        focus = {'pair': [a, b], 'N': N}
        slim = dict(pipeline.slim_case(case), kind='e2e', mirror_pairs=case['mirror_pairs'], focus=focus)
        if (ra is None) != (rb is None):
            sh.violation('mirror-has-record-original-has-not', 'query %d %s a first-pass record, its mirror image %d %s' % (
                a, 'has' if ra else 'has no', b, 'has' if rb else 'has none'), slim)
            continue
        (ia, ra), (ib, rb) = ra, rb
        sh.count('pairs-with-records')
        sh.nt([ra['raw'][2:], rb['raw'][2:]])
        nseg = len([s for s in wrows[ia].segments if not s.empty]) if ia < len(wrows) else 0
        if nseg >= 2:
            sh.count('multi-segment-pairs')
        ma = sorted((r, N + 1 - k) for r, k in ra['aln'])
        if ra['ori'] == rb['ori']:
            key, what = 'mirror-same-orientation', 'both reported %s' % ra['ori']
        elif ra['r'] != rb['r']:
            key, what = 'mirror-other-reference', 'references %s vs %s' % (ra['r'], rb['r'])
        elif ma != sorted(rb['aln']):
            key, what = 'mirror-pairs-differ', 'pairs of %d mirrored: %s..., pairs of %d: %s... (%d vs %d pairs)' % (
                a, ma[:5], b, sorted(rb['aln'])[:5], len(ma), len(rb['aln']))
        elif abs(ra['conf'] - rb['conf']) > 0.0101:
            key, what = 'mirror-confidence-differs', 'confidence %.2f vs %.2f with identical (mirrored) pairs' % (ra['conf'], rb['conf'])
        else:
            key = None
            if len(sh.samples) < 2 and nseg >= 2:
                sh.sample({'query': a, 'mirror': b, 'N': N, 'd': case['params']['d'], 'record': ra['line'][:140], 'mirror record': rb['line'][:140]})
        if key:
            sh.violation(key, 'query %d (%s, %d labels%s) and its mirror image %d: %s' % (a, ra['ori'], N, ', %d segments' % nseg, b, what), slim)


def run_shard(spec):
    sh = Shard()
    for i in range(spec['cases']):
        rng = rng_for('C11', spec['seed'], spec['shard'], i)
        case = make_case(rng)
        case['gen'] = [spec['seed'], spec['shard'], i]
        core.isolated(judge, sh, case, spec['workdir'])
    return sh


def replay(case):
    sh = Shard()
    judge(case, case['workdir'], sh)
    return [{'key': v['key'], 'what': v['what']} for v in sh.violations]
