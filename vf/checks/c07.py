"""C07 - well-formed input never aborts the run; unalignable queries just yield no record."""
import io
import os

from vf import core, e2e, gen, hooks, pipeline, text
from vf.core import Shard, rng_for

PROPERTY = 'C07'
RULE = ('reference files of 0-4 and query files of 0-9 degenerate molecules (no label at all, one/two labels, coincident labels, all '
        'labels inside one bin, queries longer than every reference, references whose labels span a fraction of '
        'ContigLength, dense, sparse, very long) mixed with ordinary planted queries; all four output modes, stdout '
        'output for best, parameter sets the option help allows (-r1/-md>=r1/-p/-pt/-ms/-b1/-r2/-b2/-ma); plus ordinary '
        'noisy/chimeric/indel workloads with hostile thresholds. 85 % of cases in-process (M-serial), 15 % through the real '
        'CLI in a subprocess (python -X faulthandler -m src.program, and the coma console script). Oracle: exit 0 / no '
        'exception / no traceback; every file the mode promises exists and parses strictly (#h/#f lines, 15 typed '
        'fields); the project\'s own XmapReader.readAlignments (default and with-distance pair parsers) returns one '
        'alignment per record (zero for a header-only file); isolation: the records of the ordinary queries equal those '
        'of a second run from which the degenerate molecules were removed. Aborts are keyed by (exception type, '
        'innermost repository frame). Non-trivial = run containing >= 1 degenerate molecule or producing a header-only '
        'file; distinct by content hash of inputs+argv.')
ASSUMPTIONS = ['"syntactically valid CMAP" = header lines, one row per label plus one end-marker row per molecule, numeric '
               'fields; minPeakDistance is kept >= primaryResolution as the property states',
               'query ids are unique within a file']
MINIMUMS = {'runs': {'quick': 400, 'thorough': 8000}, 'cli-runs': {'quick': 30, 'thorough': 600},
            'files-read-back': {'quick': 800, 'thorough': 12000}, 'header-only-files': {'quick': 50, 'thorough': 800},
            'isolation-comparisons': {'quick': 40, 'thorough': 900}, 'queries-without-any-seed': {'quick': 100, 'thorough': 1500}}


def plan(tier, seed):
    n, c = (16, 30) if tier == 'quick' else (64, 160)
    return [{'name': 's%d' % i, 'kind': 'mix', 'seed': seed, 'shard': i, 'cases': c} for i in range(n)]


def make_case(rng):
    if rng.random() < 0.15:
        case = gen.long_molecule_case(rng, mode=rng.choice(['best', 'joined', 'all', 'best']))
        case['flavour'] = 'long-multi-indel'
        case['ordinary'] = []
        if rng.random() < 0.3:
            case['params']['d'] = rng.choice([800, 3000])
        return case
    if rng.random() < 0.25:
        case = gen.pipeline_case(rng, ['noisy', 'chimeric', 'indel', 'partial'], nq=rng.randint(1, 10), param_prob=0.9,
                                 param_keys=('sp', 'dp', 'su', 'd', 'ms', 'bs', 'p', 'sj', 'ss', 'diff', 'r1', 'b1', 'r2', 'b2', 'ma', 'pt'))
        case['flavour'] = 'ordinary-hostile-params'
        case['ordinary'] = []
        return case
    refs, queries, qclass = [], [], {}
    for i in range(rng.randint(1, 3)):
        kind, length, pos = gen.degenerate_map(rng, True)
        refs.append([i + 1, length, pos])
    for j in range(rng.randint(1, 8)):
        kind, length, pos = gen.degenerate_map(rng, False)
        queries.append([100 + j, length, pos])
        qclass[str(100 + j)] = 'degenerate:' + kind
    ordinary = []
    big = max(refs, key=lambda m: len(m[2]))
    if len(big[2]) > 20:
        for k in range(rng.randint(0, 3)):
            s = rng.randint(0, len(big[2]) - 15)
            sub = big[2][s:s + rng.randint(8, 15)]
            pos = [round(p - sub[0] + 50, 1) for p in sub]
            if rng.random() < 0.5:
                L = pos[-1] + 100
                pos = sorted(round(L - p, 1) for p in pos)
            queries.append([900 + k, round(max(pos) + 100, 1), pos])
            qclass[str(900 + k)] = 'planted'
            ordinary.append(900 + k)
    if rng.random() < 0.2:          # molecules without any label (only the end-marker row)
        queries.append([990, float(rng.randint(1000, 500000)), []])
        qclass['990'] = 'degenerate:unlabelled'
    if rng.random() < 0.1:
        refs.append([60, float(rng.randint(1000, 500000)), []])
    x = rng.random()
    if x < 0.03:
        queries, qclass, ordinary = [], {}, []          # a query file with header lines only
    elif x < 0.05:
        refs = []
    rng.shuffle(queries)
    P = dict(gen.DEFAULTS)
    if rng.random() < 0.5:
        P['r1'] = rng.choice([1400, 500, 3000])
        P['md'] = rng.choice([P['r1'], 20000, 5 * P['r1']])
        P['p'] = rng.choice([1, 3, 8])
        P['pt'] = rng.choice([27.0, 5.0, 1.0, 60.0])
        P['ms'] = rng.choice([1000, 300])
        P['b1'] = rng.choice([0, 1, 3])
        P['r2'] = rng.choice([100, 50, 400])
        P['b2'] = rng.choice([0, 4])
        P['ma'] = rng.choice([16000, 2000, 0])
        P['diff'] = rng.choice([100000, 0, 5000])
    case = {'refs': refs, 'queries': queries, 'qclass': qclass, 'params': P, 'mode': rng.choice(gen.MODES),
            'flavour': 'degenerate', 'ordinary': ordinary}
    y = rng.random()
    if y < 0.04:
        case['extra_argv'] = ['-qId', '987654']           # selects no molecule at all: a header-only XMAP is expected
        case['ordinary'] = []
    elif y < 0.07:
        case['extra_argv'] = ['-rId', '987654']
        case['ordinary'] = []
    if rng.random() < 0.2 and not ordinary:
        case['ref_text'], v1 = text.vary_syntax(text.cmap_text([tuple(m) for m in refs]), rng)
        case['query_text'], v2 = text.vary_syntax(text.cmap_text([tuple(m) for m in queries]), rng)
        case['flavour'] = 'degenerate+syntax:%s/%s' % (v1, v2)
    return case


def read_back(txt, case, sh, where):
    """The project's own reader on a written file (both pair parsers). -> list of (key, what)"""
    from src.parsers.cmap_reader import CmapReader
    from src.parsers.xmap_reader import XmapReader
    from src.parsers.xmap_alignment_pair_parser import XmapAlignmentPairWithDistanceParser
    out = []
    try:
        _, recs = text.parse_xmap(txt)
    except text.XmapFormatError as ex:
        return [('file-not-well-formed', '%s: %s' % (where, ex))]
    rt = case.get('ref_text') or text.cmap_text([tuple(m) for m in case['refs']])
    qt = case.get('query_text') or text.cmap_text([tuple(m) for m in case['queries']])
    try:
        R = CmapReader().readReferences(io.StringIO(rt))
        Q = [q.trim() for q in CmapReader().readQueries(io.StringIO(qt))]
    except Exception as ex:
        info = pipeline.error_info(ex)
        return [('cmap-reader-raises:%s@%s' % (info['type'], info['frame']), '%s' % info['msg'])]
    for nm, rd in (('default pair parser', XmapReader()), ('with-distance pair parser', XmapReader(XmapAlignmentPairWithDistanceParser(R, Q)))):
        try:
            al = rd.readAlignments(io.StringIO(txt))
            sh.count('files-read-back')
            if len(al) != len(recs):
                out.append(('reader-record-count', '%s: reader (%s) returned %d alignments for %d records' % (where, nm, len(al), len(recs))))
        except BaseException as ex:
            info = pipeline.error_info(ex)
            out.append(('reader-raises:%s@%s' % (info['type'], info['frame']), '%s: XmapReader.readAlignments (%s) raised %s: %s on a file with %d record(s)' % (
                where, nm, info['type'], info['msg'], len(recs))))
    if not recs:
        sh.count('header-only-files')
    return out


def judge(case, wd, sh, how=None):
    if 'decisions' not in case:
        rng = rng_for('C07how', case.get('gen'), case['mode'])
        case['decisions'] = {'how': 'cli' if rng.random() < 0.15 else 'serial', 'stdout': rng.random() < 0.3,
                             'cpus': rng.choice([1, 2, 4]), 'console': rng.random() < 0.3, 'iso': rng.random() < 0.6}
    D = case['decisions']
    how = how or D['how']
    stdout_out = case['mode'] == 'best' and D['stdout']
    sh.evaluations += 1
    sh.count('runs')
    sh.count('mode:' + case['mode'])
    for c in case.get('qclass', {}).values():
        sh.count('class:' + c)
    slim = dict(pipeline.slim_case(case), kind='e2e', decisions=D)
    if str(case.get('flavour')).startswith('degenerate'):
        sh.nt([case['refs'], case['queries'], case['params'], case['mode']])
    # how many queries have no seed at all (longer than every reference)?
    maxref = max([int(m[1]) for m in case['refs']] or [0])
    noseed = [m for m in case['queries'] if m[2] and (m[2][-1] - m[2][0] + 1) > maxref]
    sh.count('queries-without-any-seed', len(noseed))
    if how == 'cli':
        sh.count('cli-runs')
        run = pipeline.run_cli(case, wd, cpus=D['cpus'], stdout_output=stdout_out, console_script=D['console'])
    else:
        run = pipeline.run_inprocess(case, wd, serial=True, stdout_output=stdout_out)
    viol = []
    if run.error and run.error['type'] in ('HarnessTimeout', 'HarnessChildDied'):
        sh.inconclusive.append('%s run hit the harness watchdog (%s) - not a verdict' % (how, run.error['msg']))
        return
    if run.error:
        key = 'abort:%s@%s' % (run.error['type'], run.error['frame'])
        viol.append((key, '%s run aborted: %s: %s (innermost repository frame %s line %s)' % (
            how, run.error['type'], run.error['msg'], run.error['frame'], run.error.get('line'))))
    else:
        for suf in pipeline.expected_suffixes(case['mode']):
            if suf not in run.files:
                viol.append(('output-file-missing', 'mode %s: file %r was not written' % (case['mode'], suf)))
        for suf, txt in run.files.items():
            viol += read_back(txt, case, sh, 'file %r of mode %s' % (suf, case['mode']))
        # isolation: ordinary queries' records do not depend on the degenerate molecules
        if case.get('ordinary') and D['iso']:
            sub = dict(case, queries=[m for m in case['queries'] if m[0] in case['ordinary']])
            sub.pop('query_text', None)
            run2 = pipeline.run_forked(sub, wd, tag='iso', serial=True)
            sh.count('isolation-comparisons')
            if run2.error:
                viol.append(('abort:%s@%s' % (run2.error['type'], run2.error['frame']), 'run on the ordinary queries alone aborted: %s' % run2.error['msg']))
            else:
                for suf in run2.files:
                    try:
                        a = [r['raw'][1:] for r in text.parse_xmap(run.files.get(suf, ''))[1] if r['q'] in case['ordinary']]
                        b = [r['raw'][1:] for r in text.parse_xmap(run2.files[suf])[1]]
                    except text.XmapFormatError:
                        continue
                    if a != b:
                        viol.append(('degenerate-molecules-affect-other-records', 'file %r: records of the ordinary queries %s differ when the degenerate molecules are removed: %s vs %s' % (
                            suf, case['ordinary'], [x[:9] for x in a][:3], [x[:9] for x in b][:3])))
    for key, what in viol[:3]:
        sh.violation(key, what, slim)
    if not viol and len(sh.samples) < 2 and case.get('flavour') == 'degenerate':
        sh.sample({'mode': case['mode'], 'how': how, 'argv': gen.argv_of(case['params']),
                   'refs [id, length, n labels]': [[m[0], m[1], len(m[2])] for m in case['refs']],
                   'queries [id, class, length, n labels]': [[m[0], case['qclass'].get(str(m[0])), m[1], len(m[2])] for m in case['queries']],
                   'records per file': {k: len(text.record_lines(v)) for k, v in run.files.items()}, 'verdict': 'exit 0, files well-formed and readable'})


def run_shard(spec):
    sh = Shard()
    for i in range(spec['cases']):
        rng = rng_for('C07', spec['seed'], spec['shard'], i)
        case = make_case(rng)
        case['gen'] = [spec['seed'], spec['shard'], i]
        core.isolated(judge, sh, case, spec['workdir'])
    return sh


def replay(case):
    sh = Shard()
    judge(case, case['workdir'], sh)
    return [{'key': v['key'], 'what': v['what']} for v in sh.violations]
