"""C13 - segments are maximal positive-scoring runs that respect both thresholds."""
import itertools

from vf import core
from vf import e2e, gen, hooks, models, pipeline
from vf.core import Shard, rng_for

PROPERTY = 'C13'
ALPHA = [('P', 1000.), ('P', 600.), ('P', 300.), ('U', -250.), ('U', -700.), ('P', -200.)]
PAIRS_Q = [(1000, 1200), (1000, 600), (600, 600), (1600, 600), (2000, 500), (300, 250), (1300, 1200), (1000, 0)]
PAIRS_T = PAIRS_Q + [(1000, 1000), (900, 300), (2600, 950), (250, 5000), (300, 0), (1, 1)]
RULE = ('(a) exhaustive: every sequence up to length 7 (quick) / 8 (thorough) over the score alphabet {pair 1000, pair '
        '600, pair 300, unpaired -250, unpaired -700, pair -200} (hits = at every comparison) x 8 (quick) / 14 (thorough) '
        '(minScore, breakSegmentThreshold) pairs including minScore > breakSegmentThreshold and breakSegmentThreshold 0, fed to the real '
        'AlignmentSegmentsFactory.getSegments; the returned segments are mapped back to index ranges by object identity '
        'and compared with an executable model of the statement AND with each clause as an independent predicate. '
        '(b) random sequences of length 10-120 with float scores. (c) the same oracle attached to getSegments during '
        'end-to-end runs with non-default -ms/-bs. Non-trivial = sequence yielding >= 1 segment or a rejected run; '
        'enumerated cases distinct by construction.')
ASSUMPTIONS = ['for float-valued scores (random and end-to-end drives) a comparison within 1e-6 of equality may go either way: the code compares a running sum with a re-summed (Python 3.12 compensated) value; the exhaustive enumeration uses exactly representable scores and allows no tolerance', 'positions are mapped to indices by object identity (the factory must return slices of the list it was given)']
MINIMUMS = {'enum-calls': {'quick': 400000, 'thorough': 2000000}, 'random-calls': {'quick': 5000, 'thorough': 50000},
            'e2e-getSegments-calls': {'quick': 3000, 'thorough': 30000}, 'calls-with-2+-segments': {'quick': 1000, 'thorough': 10000}}


def plan(tier, seed):
    L = 7 if tier == 'quick' else 8
    pairs = PAIRS_Q if tier == 'quick' else PAIRS_T
    shards = []
    # partition the enumeration by the first two symbols
    firsts = list(itertools.product(range(len(ALPHA)), repeat=2))
    nsh = 12 if tier == 'quick' else 36
    for i in range(nsh):
        shards.append({'name': 'enum%d' % i, 'kind': 'enum', 'L': L, 'pairs': pairs, 'prefixes': firsts[i::nsh],
                       'short': i == 0})
    nr, cr = (2, 4000) if tier == 'quick' else (8, 8000)
    shards += [{'name': 'rnd%d' % i, 'kind': 'random', 'seed': seed, 'shard': i, 'cases': cr} for i in range(nr)]
    ne, ce = (8, 10) if tier == 'quick' else (24, 40)
    shards += [{'name': 'e2e%d' % i, 'kind': 'e2e', 'seed': seed, 'shard': i, 'cases': ce} for i in range(ne)]
    return shards


def mkpos(seq):
    from src.alignment.alignment_position import (ScoredAlignedPair, AlignedPair, ScoredNotAlignedPosition,
                                                  NotAlignedReferencePosition, NotAlignedQueryPosition)
    from src.correlation.optical_map import PositionWithSiteId
    out = []
    for i, (kind, s) in enumerate(seq):
        if kind == 'P':
            out.append(ScoredAlignedPair(AlignedPair(PositionWithSiteId(i + 1, i * 100), PositionWithSiteId(i + 1, i * 100), 0), s))
        elif i % 2:
            out.append(ScoredNotAlignedPosition(NotAlignedReferencePosition(PositionWithSiteId(i + 1, i * 100)), s))
        else:
            out.append(ScoredNotAlignedPosition(NotAlignedQueryPosition(PositionWithSiteId(i + 1, i * 100), 0), s))
    return out


def ranges_of(segs, pos):
    """Index ranges of the returned segments in `pos`, by object identity; None when a segment is not a slice."""
    index = {id(p): i for i, p in enumerate(pos)}
    out = []
    for s in segs:
        if not s.positions:
            out.append(None)
            continue
        st = index.get(id(s.positions[0]))
        if st is None or st + len(s.positions) > len(pos) or any(a is not b for a, b in zip(s.positions, pos[st:st + len(s.positions)])):
            return 'not-a-slice'
        out.append((st, st + len(s.positions)))
    return out


def judge_call(pos, segs, ms, bs, sh, case, tag, exact=False):
    """pos: the list given to getSegments; segs: what it returned."""
    from src.alignment.alignment_position import AlignedPair
    scores = [p.score for p in pos]
    is_pair = [isinstance(p, AlignedPair) for p in pos]
    sh.count(tag + '-calls')
    rg = ranges_of(segs, pos)
    if rg == 'not-a-slice':
        sh.violation('segment-not-a-contiguous-run', 'a returned segment is not a contiguous run (by identity) of the input list; scores %s ms=%s bs=%s' % (scores[:30], ms, bs), case())
        return
    got = [r for r in rg if r is not None]
    exp = models.segment_scan(scores, ms, bs)
    if len(got) >= 2:
        sh.count('calls-with-2+-segments')
    if not exp and not got:
        if not (len(segs) == 1 and segs[0].empty):
            sh.violation('no-single-empty-segment', 'no run qualifies but the result is %d segment(s), not a single empty one; scores %s ms=%s bs=%s' % (len(segs), scores[:30], ms, bs), case())
    elif got and any(r is None for r in rg):
        sh.violation('empty-segment-among-segments', 'empty segment returned next to non-empty ones; scores %s' % scores[:30], case())
    if got != exp and not exact and models.segment_scan_accepts(scores, ms, bs, got):
        # float-valued scores: a comparison within 1e-6 of equality went the other way (running sum vs re-summed value)
        sh.count('float-near-tie-tolerated')
        return
    if got != exp:
        sh.violation('segments-differ-from-model', 'scores %s ms=%s bs=%s: code %s, model of the statement %s' % (
            [round(x, 1) for x in scores[:40]], ms, bs, got, exp), case())
        return
    errs = models.segment_clauses(scores, is_pair, got, [s.segmentScore for s in segs if not s.empty], ms, bs)
    if errs:
        sh.violation('clause:' + errs[0].split(' ')[0] + '-' + errs[0].split(' ')[-1][:0], 'scores %s ms=%s bs=%s segments %s: %s' % (
            [round(x, 1) for x in scores[:40]], ms, bs, got, errs[0]), case())


def run_enum(spec, sh):
    from src.alignment.segments_factory import AlignmentSegmentsFactory
    from src.correlation.peak import Peak
    sh.exhaustive = True
    peak = Peak(0, 1.)
    facs = [(ms, bs, AlignmentSegmentsFactory(ms, bs)) for ms, bs in spec['pairs']]
    L = spec['L']

    def do(seq):
        pos = mkpos(seq)
        for ms, bs, f in facs:
            segs = f.getSegments(pos, peak)
            sh.evaluations += 1
            sh.space += 1
            judge_call(pos, segs, ms, bs, sh, lambda: {'kind': 'seq', 'seq': [list(x) for x in seq], 'ms': ms, 'bs': bs, 'exact': True}, 'enum', exact=True)
            if any(k == 'P' and s > 0 for k, s in seq):
                sh.nontrivial_enum += 1
            if len(sh.samples) < 1 and len(seq) == L and len([s for s in segs if not s.empty]) == 2:
                sh.sample({'kind': 'enumerated', 'scores': [s for _, s in seq], 'minScore': ms, 'breakSegmentThreshold': bs,
                           'segments (index ranges)': ranges_of(segs, pos), 'model': models.segment_scan([s for _, s in seq], ms, bs)})
    if spec.get('short'):
        for n in range(0, 2):
            for seq in itertools.product(ALPHA, repeat=n):
                do(list(seq))
    for pre in spec['prefixes']:
        for n in range(0, L - 1):
            for rest in itertools.product(ALPHA, repeat=n):
                do([ALPHA[pre[0]], ALPHA[pre[1]]] + list(rest))


def run_random(spec, sh):
    from src.alignment.segments_factory import AlignmentSegmentsFactory
    from src.correlation.peak import Peak
    for i in range(spec['cases']):
        rng = rng_for('C13rnd', spec['seed'], spec['shard'], i)
        n = rng.randint(10, 120)
        ppair = rng.uniform(0.3, 0.9)
        seq = []
        for _ in range(n):
            if rng.random() < ppair:
                seq.append(['P', round(1000 - rng.choice([1, 0.5, 2]) * rng.uniform(0, 1500), 1)])
            else:
                seq.append(['U', float(rng.choice([-250, -100, -400, 0]))])
        ms, bs = rng.choice([1000, 500, 2000, 300]), rng.choice([1200, 600, 2500, 250, 0])
        pos = mkpos(seq)
        segs = AlignmentSegmentsFactory(ms, bs).getSegments(pos, Peak(0, 1.))
        sh.evaluations += 1
        sh.nt(seq)
        judge_call(pos, segs, ms, bs, sh, lambda: {'kind': 'seq', 'seq': seq, 'ms': ms, 'bs': bs}, 'random')


def judge_e2e(case, wd, sh):
    import src.alignment.segments_factory as sf

    def after(a, k, res, snap):
        self_, positions = a[0], a[1]
        judge_call(positions, res, self_.minScore, self_.breakSegmentThreshold, sh,
                   lambda: dict(pipeline.slim_case(case), kind='e2e'), 'e2e-getSegments')
    ctx = hooks.wrapped(sf.AlignmentSegmentsFactory, 'getSegments', hooks.observing(after))
    obs = e2e.observe(case, wd, trace=False, cands=False, extra_ctx=[ctx])
    e2e.note_run(case, obs, sh)


def run_e2e(spec, sh):
    for i in range(spec['cases']):
        rng = rng_for('C13e2e', spec['seed'], spec['shard'], i)
        case = gen.pipeline_case(rng, ['noisy', 'indel', 'chimeric', 'partial'], param_prob=1.0,
                                 param_keys=('ms', 'bs', 'd', 'su', 'dp'))
        case['kind'] = 'e2e'
        case['gen'] = [spec['seed'], spec['shard'], i]
        core.isolated(judge_e2e, sh, case, spec['workdir'])
    if hooks.MONITOR_ERRORS:
        sh.inconclusive.append('monitor errors: %s' % hooks.MONITOR_ERRORS[:3])


def run_shard(spec):
    sh = Shard()
    {'enum': run_enum, 'random': run_random, 'e2e': run_e2e}[spec['kind']](spec, sh)
    return sh


def replay(case):
    from src.alignment.segments_factory import AlignmentSegmentsFactory
    from src.correlation.peak import Peak
    sh = Shard()
    if case.get('kind') == 'seq':
        seq = [tuple(x) for x in case['seq']]
        pos = mkpos(seq)
        segs = AlignmentSegmentsFactory(case['ms'], case['bs']).getSegments(pos, Peak(0, 1.))
        judge_call(pos, segs, case['ms'], case['bs'], sh, lambda: case, 'replay', exact=case.get('exact', False))
    else:
        judge_e2e(case, case['workdir'], sh)
    return [{'key': v['key'], 'what': v['what']} for v in sh.violations]
