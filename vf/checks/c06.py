"""C06 - a noise-free copy of an interior reference region is placed exactly."""
from vf import core
from vf import e2e, gen, hooks, oracles, pipeline
from vf.core import Shard, rng_for

PROPERTY = 'C06'
RULE = ('single-reference maps of 60-300 labels with spacing >= 2-4 kb (mean 9-20 kb, integer or one-decimal coordinates, '
        'reference starting 1-30 kb from the origin), 12 planted queries per run: exact copies of interior windows of '
        '15-45 labels at least 4 labels from either end, both strands, query offset 0/20/0-50 kb (with decimals) or '
        'beyond the reference length (molecule kept in genome coordinates), trailing length 0.1 bp .. 30 kb or longer than the reference, default parameters, output mode rotated; windows near the reference origin '
        '(within the secondary margin) and queries whose first label is exactly at 0 are forced in a fixed share of '
        'runs. Oracle: the record exists in the file that carries un-joined first-pass records of that mode, names the '
        'reference, has the planted strand, exactly the true pairs, HitEnum nM, and every pair\'s recorded queryShift is '
        'within 200 bp (from the rows handed to the writer). Non-trivial = every planted query; distinct by hash of '
        '(reference window, strand, offset, trailing).')
ASSUMPTIONS = ['the quantifier of C06 is followed literally: spacing >= 2 kb, mean >= 9 kb, window >= 4 labels from the ends']
MINIMUMS = {'planted-queries': {'quick': 2500, 'thorough': 40000}, 'reverse-planted': {'quick': 1000, 'thorough': 15000},
            'near-origin-windows': {'quick': 50, 'thorough': 800}, 'first-label-at-zero': {'quick': 100, 'thorough': 1500},
            'offset-or-tail-beyond-reference-length': {'quick': 200, 'thorough': 3000}}


def plan(tier, seed):
    n, c = (16, 17) if tier == 'quick' else (64, 70)
    return [{'name': 's%d' % i, 'kind': 'plant', 'seed': seed, 'shard': i, 'cases': c} for i in range(n)]


def make_case(rng):
    onedec = rng.random() < 0.5
    mean = rng.choice([9000, 12000, 20000])
    mn = rng.choice([2000, 2500, 4000])
    n = rng.randint(60, 300)
    pos = []
    p = rng.choice([rng.randint(1000, 30000), rng.randint(1000, 3000)])
    dense_head = rng.random() < 0.3      # legal: spacing >= 2 kb everywhere, overall mean still >= 9 kb
    for i in range(n):
        pos.append(p)
        if dense_head and i < 12:
            p += mn + rng.uniform(0, 300)
        else:
            p += mn + rng.expovariate(1 / (mean - mn)) + (0 if not dense_head else 2000)
    ref = [round(x, 1) if onedec else float(round(x)) for x in pos]
    reflen = ref[-1] + rng.choice([0.4, 1, 5000, rng.randint(1, 20000)])
    queries, truth, qclass = [], {}, {}
    # CMapIds of the two files are independent number spaces: let a query share the reference's id in part of the inputs
    refid = rng.choice([1, 1, 2, 17, 100, 105])
    qid0 = max(1, rng.choice([100, 100, 1, refid - rng.randint(0, 11)]))
    for j in range(12):
        k = rng.randint(15, 45)
        if len(ref) - k - 8 < 4:
            k = 15
        if dense_head and rng.random() < 0.4:
            s = rng.randint(4, 8)
        else:
            s = rng.randint(4, len(ref) - k - 4)
        sub = ref[s:s + k]
        off = rng.choice([0, 0, 20, rng.randint(0, 50000), rng.randint(0, 50000), int(reflen) + rng.randint(1, 10 ** 7)]) + (rng.choice([0, 0.3, 0.7]) if onedec else 0)
        trail = rng.choice([0.1, 1, 250, rng.randint(1, 30000), rng.randint(1, 30000), int(reflen) + rng.randint(1, 10 ** 6)])
        rev = rng.random() < 0.5
        if not rev:
            q = [round(x - sub[0] + off, 1) for x in sub]
            tr = [[s + 1 + i, i + 1] for i in range(k)]
        else:
            q = sorted(round(sub[-1] - x + off, 1) for x in sub)
            tr = [[s + 1 + i, k - i] for i in range(k)]
        qid = qid0 + j
        queries.append([qid, round(q[-1] + trail, 1), q])
        truth[str(qid)] = {'pairs': tr, 'ori': '-' if rev else '+', 'window_start': sub[0], 'off': off, 'trail': trail}
        qclass[str(qid)] = 'planted'
    return {'refs': [[refid, round(reflen, 1), ref]], 'queries': queries, 'qclass': qclass, 'truth': truth,
            'params': dict(gen.DEFAULTS), 'mode': rng.choice(gen.MODES)}


def judge(case, wd, sh):
    obs = e2e.observe(case, wd, trace=False, cands=False)
    if not e2e.note_run(case, obs, sh):
        sh.violation('abort:%s@%s' % (obs.run.error['type'], obs.run.error['frame']), 'run with planted queries aborted: %s' % obs.run.error['msg'],
                     dict(pipeline.slim_case(case), kind='e2e'))
        return
    suf = {'best': '', 'separate': '', 'joined': '_1', 'all': '_1'}[case['mode']]
    recs = {r['q']: (i, r) for i, r in enumerate(obs.records.get(suf, []))}
    rows = obs.run.rows.get(suf, [])
    for qid, t in case['truth'].items():
        qid = int(qid)
        sh.count('planted-queries')
        if t['ori'] == '-':
            sh.count('reverse-planted')
        if t['window_start'] < 16000 + case['refs'][0][2][0] or t['window_start'] < 16000:
            sh.count('near-origin-windows')
        if t['off'] == 0:
            sh.count('first-label-at-zero')
        if t['off'] > case['refs'][0][1] or t['trail'] > case['refs'][0][1]:
            sh.count('offset-or-tail-beyond-reference-length')
        sh.nt([case['refs'][0][2][t['pairs'][0][0] - 1], len(t['pairs']), t['ori'], t['off'], t['trail']])
        focus = {'query': qid, 'truth': t, 'file': suf}
        hit = recs.get(qid)
        key = what = None
        if hit is None:
            key, what = 'planted-query-missing', 'query %d (%d labels, %s, offset %s, trailing %s) has no record in file %r of mode %s' % (
                qid, len(t['pairs']), t['ori'], t['off'], t['trail'], suf, case['mode'])
        else:
            idx, r = hit
            tp = [tuple(p) for p in t['pairs']]
            if r['r'] != case['refs'][0][0] or r['ori'] != t['ori']:
                key, what = 'planted-query-wrong-strand', 'query %d planted %s, reported %s on ref %s' % (qid, t['ori'], r['ori'], r['r'])
            elif r['aln'] != tp:
                key, what = 'planted-query-wrong-pairs', 'query %d (%s): reported %s..., true %s... (%d vs %d pairs)' % (
                    qid, t['ori'], r['aln'][:4], tp[:4], len(r['aln']), len(tp))
            elif r['hit'] != '%dM' % len(tp):
                key, what = 'planted-query-hitenum-gaps', 'query %d: HitEnum %s, expected %dM' % (qid, r['hit'], len(tp))
            elif idx < len(rows):
                shifts = [abs(p.queryShift) for p in rows[idx].alignedPairs]
                if shifts and max(shifts) > 200:
                    key, what = 'planted-pair-off-diagonal', 'query %d (%s, offset %s, trailing %s): pairs up to %.1f bp from the seed diagonal' % (
                        qid, t['ori'], t['off'], t['trail'], max(shifts))
                elif len(sh.samples) < 2:
                    sh.sample({'query': qid, 'mode': case['mode'], 'strand': t['ori'], 'offset': t['off'], 'trailing': t['trail'],
                               'record': r['line'][:160], 'max |queryShift|': round(max(shifts), 1)})
        if key:
            sh.violation(key, what, dict(pipeline.slim_case(case), kind='e2e', focus=focus))


def run_shard(spec):
    sh = Shard()
    for i in range(spec['cases']):
        rng = rng_for('C06', spec['seed'], spec['shard'], i)
        case = make_case(rng)
        case['gen'] = [spec['seed'], spec['shard'], i]
        core.isolated(judge, sh, case, spec['workdir'])
    return sh


def replay(case):
    sh = Shard()
    judge(case, case['workdir'], sh)
    return [{'key': v['key'], 'what': v['what']} for v in sh.violations]
