"""C18 - XMAP written by COMA reads back to the same alignments."""
import io

from vf import core
from vf import e2e, gen, pipeline, text
from vf.core import Shard, rng_for
from vf.checks import c07

PROPERTY = 'C18'
RULE = ('every XMAP file written by end-to-end runs (ordinary classes with -ms 300..1000 so one-pair records occur, '
        'degenerate inputs producing header-only and one-record files, long molecules; all four output modes, so main, '
        'first-pass, second-pass and joined files) is read with the project\'s XmapReader.readAlignments - with '
        'XmapAlignmentPairWithDistanceParser over the maps of that run and with the default pair parser - and compared '
        'with an independent parse of the same text: one alignment per record in order; ids, orientation, HitEnum '
        'string and label pairs equal; start/end/length = int(written value); confidence equal to two decimals; pair '
        'coordinates = positions[label-1] of the maps given. Non-trivial = file with >= 1 record that has a reverse, '
        'second-pass, joined or one-pair record, or a header-only file; distinct by content hash of the record lines.')
ASSUMPTIONS = ['records that violate C01 (label out of range) are skipped for the coordinate clause']
MINIMUMS = {'files-with-1000+-records': 1, 'files-with-query-coordinates-beyond-2^24': {'quick': 2, 'thorough': 20}, 'files-read': {'quick': 400, 'thorough': 6000}, 'records-compared': {'quick': 2500, 'thorough': 40000},
            'header-only-files': {'quick': 100, 'thorough': 1500}, 'one-record-files': {'quick': 50, 'thorough': 800},
            'one-pair-records': {'quick': 2, 'thorough': 30}, 'second-pass-records': {'quick': 300, 'thorough': 5000}}


def plan(tier, seed):
    n, c = (16, 22) if tier == 'quick' else (64, 80)
    return [{'name': 'big', 'kind': 'e2e', 'seed': seed, 'shard': 999, 'cases': 1, 'big': 1010 if tier == 'quick' else 5100}] + \
        [{'name': 's%d' % i, 'kind': 'e2e', 'seed': seed, 'shard': i, 'cases': c} for i in range(n)]


def make_case(rng, big=0):
    if big:
        return gen.big_file_case(rng, big)
    x = rng.random()
    if x < 0.04:
        return gen.huge_coordinate_case(rng)
    if x < 0.35:
        case = c07.make_case(rng)
        case.pop('decisions', None)
        return case
    if x < 0.45:
        return gen.long_molecule_case(rng, nq=rng.randint(4, 8))
    case = gen.pipeline_case(rng, ['clean', 'noisy', 'chimeric', 'indel', 'partial'], nq=rng.choice([1, 2, 12]), param_prob=0.0)
    case['params']['ms'] = rng.choice([1000, 400, 300])
    return case


def judge(case, wd, sh):
    from src.parsers.cmap_reader import CmapReader
    from src.parsers.xmap_reader import XmapReader
    from src.parsers.xmap_alignment_pair_parser import XmapAlignmentPairWithDistanceParser
    run = pipeline.run_inprocess(case, wd, serial=not case.get('pool'), cpus=8 if case.get('pool') else 1)
    sh.evaluations += 1
    if run.error:
        sh.count('aborted-runs')
        return
    rt = case.get('ref_text') or text.cmap_text([tuple(m) for m in case['refs']])
    qt = case.get('query_text') or text.cmap_text([tuple(m) for m in case['queries']])
    R = CmapReader().readReferences(io.StringIO(rt))
    Q = [q.trim() for q in CmapReader().readQueries(io.StringIO(qt))]
    refs, qs = pipeline.parsed_inputs(case)
    for suf, txt in run.files.items():
        slim = lambda rec=None: dict(pipeline.slim_case(case), kind='e2e', focus={'file': suf, 'record': rec and rec['line'][:200]})
        try:
            _, recs = text.parse_xmap(txt)
        except text.XmapFormatError as ex:
            sh.violation('file-not-well-formed', 'file %r: %s' % (suf, ex), slim())
            continue
        sh.count('files-read')
        if not recs:
            sh.count('header-only-files')
        if len(recs) == 1:
            sh.count('one-record-files')
        if len(recs) > 1000:
            sh.count('files-with-1000+-records')
        if any(max(r['qs'], r['qe'], r['ql']) >= 2 ** 24 for r in recs):
            sh.count('files-with-query-coordinates-beyond-2^24')
        elif any(max(r['qs'], r['qe'], r['ql']) >= 2 ** 21 for r in recs):
            sh.count('files-with-query-coordinates-beyond-2^21')
        joined = suf == '' and case['mode'] in ('joined', 'all')
        if not recs or any(r['ori'] == '-' or r['rest'] == 'True' or len(r['aln']) == 1 for r in recs) or joined:
            sh.nt([suf, text.record_lines(txt)])
        for which, rd in (('with-distance', XmapReader(XmapAlignmentPairWithDistanceParser(R, Q))), ('default', XmapReader())):
            try:
                al = rd.readAlignments(io.StringIO(txt))
            except BaseException as ex:
                info = pipeline.error_info(ex)
                sh.violation('reader-raises:%s@%s' % (info['type'], info['frame']), 'file %r (%d records, %s parser): readAlignments raised %s: %s' % (
                    suf, len(recs), which, info['type'], info['msg']), slim())
                continue
            if len(al) != len(recs):
                sh.violation('alignment-count-differs', 'file %r: %d alignments read for %d records (%s parser)' % (suf, len(al), len(recs), which), slim())
                continue
            if which == 'default' and recs:
                # selecting by XmapEntryID returns exactly the record with that id
                for pick in sorted({recs[0]['id'], recs[len(recs) // 2]['id'], recs[-1]['id']}):
                    try:
                        one = rd.readAlignments(io.StringIO(txt), alignmentIds=[pick])
                        sh.count('id-selections')
                        if len(one) != 1 or one[0].alignmentId != pick:
                            sh.violation('select-by-XmapEntryID', 'file %r: readAlignments(alignmentIds=[%d]) returned %d alignment(s)' % (suf, pick, len(one)), slim())
                            break
                    except BaseException as ex:
                        sh.violation('reader-raises-on-id-selection:' + type(ex).__name__, 'file %r: %r' % (suf, ex), slim())
                        break
            for a, r in zip(al, recs):
                sh.count('records-compared')
                if which == 'default':
                    if r['rest'] == 'True':
                        sh.count('second-pass-records')
                    if len(r['aln']) == 1:
                        sh.count('one-pair-records')
                bad = None
                got_pairs = [(p.reference.siteId, p.query.siteId) for p in a.alignedPairs]
                chk = [('XmapEntryID', a.alignmentId, r['id']), ('QryContigID', a.queryId, r['q']), ('RefContigID', a.referenceId, r['r']),
                       ('Orientation', a.reverseStrand, r['ori'] == '-'), ('HitEnum', a.cigarString, r['hit']),
                       ('QryStartPos', a.queryStartPosition, int(r['qs'])), ('QryEndPos', a.queryEndPosition, int(r['qe'])),
                       ('RefStartPos', a.referenceStartPosition, int(r['rs'])), ('RefEndPos', a.referenceEndPosition, int(r['re'])),
                       ('QryLen', a.queryLength, int(r['ql'])), ('RefLen', a.referenceLength, int(r['rl'])),
                       ('Alignment', got_pairs, r['aln'])]
                for name, g, e in chk:
                    if g != e:
                        bad = ('read-back-%s-differs' % name, '%s: read %r, written %r' % (name, g if name != 'Alignment' else g[:6], e if name != 'Alignment' else e[:6]))
                        break
                if bad is None and abs(float(a.confidence) - r['conf']) > 0.005:
                    bad = ('read-back-Confidence-differs', 'Confidence read %r, written %r' % (a.confidence, r['conf']))
                if bad is None and which == 'with-distance' and r['r'] in refs and r['q'] in qs:
                    Rp, Qp = refs[r['r']][1], [x - qs[r['q']][1][0] for x in qs[r['q']][1]]
                    for p in a.alignedPairs:
                        if not (1 <= p.reference.siteId <= len(Rp) and 1 <= p.query.siteId <= len(Qp)):
                            break
                        if abs(p.reference.position - Rp[p.reference.siteId - 1]) > 1e-6 or abs(p.query.position - Qp[p.query.siteId - 1]) > 1e-6:
                            bad = ('read-back-pair-coordinates-differ', 'pair (%d,%d) read with coordinates (%s,%s), the maps say (%s,%s)' % (
                                p.reference.siteId, p.query.siteId, p.reference.position, p.query.position, Rp[p.reference.siteId - 1], Qp[p.query.siteId - 1]))
                            break
                if bad:
                    sh.violation(bad[0], 'file %r record %d (%s parser): %s' % (suf, r['id'], which, bad[1]), slim(r))
                    break
        if recs and len(sh.samples) < 1:
            sh.sample({'file': suf, 'mode': case['mode'], 'records': len(recs), 'first record': recs[0]['line'][:160],
                       'verdict': 'read back identically by both pair parsers'})


def run_shard(spec):
    sh = Shard()
    for i in range(spec['cases']):
        rng = rng_for('C18', spec['seed'], spec['shard'], i)
        case = make_case(rng, spec.get('big', 0) if i == 0 else 0)
        case['gen'] = [spec['seed'], spec['shard'], i]
        core.isolated(judge, sh, case, spec['workdir'])
    return sh


def replay(case):
    sh = Shard()
    judge(case, case['workdir'], sh)
    return [{'key': v['key'], 'what': v['what']} for v in sh.violations]
