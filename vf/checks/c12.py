"""C12 - pairing along a seed diagonal partitions labels and pairs nearest neighbours."""
import collections
import itertools

from vf import core
from vf import e2e, gen, hooks, pipeline
from vf.core import Shard, rng_for

PROPERTY = 'C12'
RULE = ('(a) exhaustive lattice: every multiset of <= 3 reference and 1..3 query labels on 0..5 (coincident labels '
        'included), maxDistance 0/1/2, three seed offsets, both strands, fragment label offsets 0 and 3 (quick); labels '
        'on 0..6 with <= 4 reference labels (thorough); (b) random maps with forced ties, dense clusters and labels '
        'exactly at maxDistance; (c) the same oracle attached to AlignerEngine.align during end-to-end runs (real data, '
        'second-pass fragments with label offsets). Oracle (written from the statement): the window is the reference '
        'labels in [start-d, end+d]; every window label and every query label occurs exactly once, paired or unpaired, '
        'in non-decreasing diagonal position; each pair\'s offset = qpos-(rpos-start), |offset| <= d; pairs one-to-one '
        'and non-crossing; mutually strictly nearest partners within d are paired. Non-trivial = call returning >= 1 '
        'pair; enumerated cases distinct by construction.')
ASSUMPTIONS = ['comparisons of distances use a margin of 1e-6 bp (ties within float rounding decide nothing)', 'query coordinates for the reverse strand are length-1-position with descending label numbers (the '
               'convention C02/C04 pin from the file side)']
MINIMUMS = {'enum-calls': {'quick': 150000, 'thorough': 800000}, 'random-calls': {'quick': 3000, 'thorough': 30000},
            'e2e-engine-calls': {'quick': 2000, 'thorough': 20000}, 'e2e-fragment-calls': {'quick': 50, 'thorough': 500}}


def plan(tier, seed):
    if tier == 'quick':
        G, maxr, nsh = 6, 3, 8
    else:
        G, maxr, nsh = 7, 4, 32
    rsets = [list(r) for nr in range(0, maxr + 1) for r in itertools.combinations_with_replacement(range(G), nr)]
    shards = [{'name': 'enum%d' % i, 'kind': 'enum', 'G': G, 'rsets': rsets[i::nsh]} for i in range(nsh)]
    nr_, cr = (2, 2500) if tier == 'quick' else (8, 6000)
    shards += [{'name': 'rnd%d' % i, 'kind': 'random', 'seed': seed, 'shard': i, 'cases': cr} for i in range(nr_)]
    ne, ce = (6, 8) if tier == 'quick' else (16, 40)
    shards += [{'name': 'e2e%d' % i, 'kind': 'e2e', 'seed': seed, 'shard': i, 'cases': ce} for i in range(ne)]
    return shards


EPS = 1e-6


def oracle(out, rpos, qpos, qlen, shift, start, end, rev, d):
    """out: list returned by AlignerEngine.align. rpos/qpos: label coordinate lists of reference / query."""
    from src.alignment.alignment_position import AlignedPair, NotAlignedQueryPosition, NotAlignedReferencePosition
    n = len(qpos)
    if rev:
        qlab = [(n + shift - i, qlen - 1 - p) for i, p in enumerate(qpos[::-1])]
    else:
        qlab = [(1 + shift + i, p) for i, p in enumerate(qpos)]
    rlab = [(i + 1, p) for i, p in enumerate(rpos) if start - d <= p <= end + d]
    qd, rd = dict(qlab), dict(rlab)
    seenq, seenr = collections.Counter(), collections.Counter()
    pairs, absp = [], []
    for p in out:
        absp.append(p.absolutePosition)
        if isinstance(p, AlignedPair):
            seenq[p.query.siteId] += 1
            seenr[p.reference.siteId] += 1
            pairs.append(p)
            if rd.get(p.reference.siteId) != p.reference.position:
                return 'pair-reference-label-wrong', 'pair names reference label %s at %s (window %s)' % (p.reference.siteId, p.reference.position, rlab[:6])
            if qd.get(p.query.siteId) != p.query.position:
                return 'pair-query-label-wrong', 'pair names query label %s at %s, expected labels %s' % (p.query.siteId, p.query.position, qlab[:6])
            shf = p.query.position - (p.reference.position - start)
            if abs(shf - p.queryShift) > 1e-9:
                return 'pair-offset-wrong', 'recorded offset %s, qpos-(rpos-start) = %s' % (p.queryShift, shf)
            if abs(shf) > d + 1e-6:
                return 'pair-beyond-maxDistance', 'offset %s > d %s' % (shf, d)
        elif isinstance(p, NotAlignedQueryPosition):
            seenq[p.query.siteId] += 1
            if qd.get(p.query.siteId) != p.query.position:
                return 'unpaired-query-label-wrong', 'unpaired query label %s at %s' % (p.query.siteId, p.query.position)
        elif isinstance(p, NotAlignedReferencePosition):
            seenr[p.reference.siteId] += 1
            if rd.get(p.reference.siteId) != p.reference.position:
                return 'unpaired-reference-label-wrong', 'unpaired reference label %s at %s not in window' % (p.reference.siteId, p.reference.position)
        else:
            return 'unknown-position-type', type(p).__name__
    if sorted(seenq) != sorted(qd) or any(v != 1 for v in seenq.values()):
        return 'query-labels-not-partitioned', 'query labels returned %s, expected each of %s once' % (dict(seenq), sorted(qd))
    if sorted(seenr) != sorted(rd) or any(v != 1 for v in seenr.values()):
        return 'window-labels-not-partitioned', 'reference labels returned %s, expected each of %s once' % (dict(seenr), sorted(rd))
    if absp != sorted(absp):
        return 'not-in-ascending-position-order', 'positions %s' % absp[:20]
    ps = sorted(pairs, key=lambda p: (p.reference.position, p.reference.siteId))
    for a, b in zip(ps, ps[1:]):
        if a.query.position > b.query.position:
            return 'pairs-cross', 'pairs (%s,%s) and (%s,%s) cross' % (a.reference.siteId, a.query.siteId, b.reference.siteId, b.query.siteId)
        if a.query.position == b.query.position and a.reference.position != b.reference.position and \
                ((a.query.siteId > b.query.siteId) != rev):
            return 'pairs-cross', 'pairs on coincident query labels are numbered against the strand direction'
    # mutual strict nearest partners (with margin EPS) must be paired; O((n+m) log) via bisect on the ascending coordinates
    import bisect
    pairset = {(p.reference.siteId, p.query.siteId) for p in pairs}
    qx = [qp for _, qp in qlab]
    rx = [rp - start for _, rp in rlab]

    def nearest(xs, x):
        """index of the nearest element of ascending xs to x, its distance, and the distance of the runner-up"""
        i = bisect.bisect_left(xs, x)
        cand = sorted((abs(xs[j] - x), j) for j in range(max(0, i - 2), min(len(xs), i + 2)))
        if not cand:
            return None, None, None
        return cand[0][1], cand[0][0], (cand[1][0] if len(cand) > 1 else float('inf'))
    if qx == sorted(qx) and rx == sorted(rx):
        for ri, (rs, rp) in enumerate(rlab):
            qi, dist, second = nearest(qx, rp - start)
            if qi is None or dist > d - EPS or second <= dist + EPS:
                continue
            ri2, dist2, second2 = nearest(rx, qx[qi])
            if ri2 != ri or second2 <= dist2 + EPS:
                continue
            if (rs, qlab[qi][0]) not in pairset:
                return 'mutual-nearest-unpaired', 'reference label %s and query label %s are strictly each other\'s nearest within d but not paired' % (rs, qlab[qi][0])
    return None


def call(rpos, rlen, qpos, qlen, shift, start, end, rev, d):
    from src.alignment.aligner import AlignerEngine
    from src.correlation.optical_map import OpticalMap
    R = OpticalMap(1, rlen, list(rpos))
    Q = OpticalMap(2, qlen, list(qpos), shift)
    return AlignerEngine(d).align(R, Q, start, end, rev)


def judge(c, sh, tag):
    sh.evaluations += 1
    sh.count(tag + '-calls')
    try:
        out = call(c['r'], c['rlen'], c['q'], c['qlen'], c['shift'], c['start'], c['end'], c['rev'], c['d'])
    except Exception as ex:
        info = pipeline.error_info(ex)
        sh.violation('engine-raises:' + info['type'], 'AlignerEngine.align raised %s on %s' % (info['msg'], c), dict(c, kind='call'))
        return None
    err = oracle(out, c['r'], c['q'], c['qlen'], c['shift'], c['start'], c['end'], c['rev'], c['d'])
    if err:
        sh.violation(err[0], '%s | ref %s query %s shift %s start %s end %s rev %s d %s' % (
            err[1], c['r'][:12], c['q'][:12], c['shift'], c['start'], c['end'], c['rev'], c['d']), dict(c, kind='call'))
    return out


def run_enum(spec, sh):
    from src.alignment.alignment_position import AlignedPair
    sh.exhaustive = True
    G = spec['G']
    for rpos in spec['rsets']:
        for nq in range(1, 4):
            for qpos in itertools.combinations_with_replacement(range(G - 1), nq):
                for d in (0, 1, 2):
                    for start in (-1, 0, 2):
                        for rev in (False, True):
                            for shift in (0, 3):
                                qlen = qpos[-1] + 1
                                c = {'r': list(rpos), 'rlen': G + 2, 'q': list(qpos), 'qlen': qlen, 'shift': shift,
                                     'start': start, 'end': start + qlen, 'rev': rev, 'd': d}
                                out = judge(c, sh, 'enum')
                                sh.space += 1
                                if out and any(isinstance(p, AlignedPair) for p in out):
                                    sh.nontrivial_enum += 1
                                    if len(sh.samples) < 1 and len(rpos) == 3 and nq == 3 and rev:
                                        sh.sample({'kind': 'lattice', 'case': c, 'returned': [repr(p) for p in out]})


def run_random(spec, sh):
    for i in range(spec['cases']):
        rng = rng_for('C12rnd', spec['seed'], spec['shard'], i)
        d = rng.choice([0, 50, 300, 1500])
        step = rng.choice([max(1, d // 2), max(1, d), 2 * d + 1, 5000])
        nr = rng.randint(0, 40)
        r = sorted(rng.randint(0, 60) * step + rng.choice([0, 0, 0, d, -d, 1]) for _ in range(nr))
        r = [max(0, x) for x in r]
        nq = rng.randint(1, 25)
        q = sorted(rng.randint(0, 40) * step + rng.choice([0, 0, d, 1]) for _ in range(nq))
        q = [x - q[0] for x in q]
        rev = rng.random() < 0.5
        start = rng.choice([0, step, rng.randint(-2 * step, 20 * step)])
        if rng.random() < 0.3:          # far along a chromosome, fractional coordinates, labels within a fraction of a bp of the limit
            far = rng.choice([2 ** 24, 6 * 10 ** 7, 15 * 10 ** 7]) + rng.randint(0, 10 ** 6)
            r = sorted(x + far + rng.choice([0, 0.1, 0.5, -0.1]) for x in r)
            start = start + far
            q = sorted(x + rng.choice([0, 0.1, 0.4]) for x in q)        # label lists are ascending by definition
            q = [x - q[0] for x in q]
        qlen = q[-1] + 1
        c = {'r': sorted(r), 'rlen': (max(r) if r else 0) + 10, 'q': q, 'qlen': qlen, 'shift': rng.choice([0, 0, 2, 17]),
             'start': start, 'end': start + qlen, 'rev': rev, 'd': d}
        judge(c, sh, 'random')
        sh.nt(c)


def judge_e2e(case, wd, sh):
    import src.alignment.aligner as al

    def after(a, k, res, snap):
        self_, reference, query, start, end, isrev = a[0], a[1], a[2], a[3], a[4], a[5]
        sh.count('e2e-engine-calls')
        if query.shift:
            sh.count('e2e-fragment-calls')
        err = oracle(res, list(reference.positions), list(query.positions), query.length, query.shift, start, end,
                     bool(isrev), self_.maxDistance)
        if err:
            sh.violation(err[0], '[end-to-end] %s | query %s shift %s start %s rev %s d %s' % (
                err[1], query.moleculeId, query.shift, start, isrev, self_.maxDistance),
                {'kind': 'call', 'r': list(reference.positions), 'rlen': reference.length, 'q': list(query.positions),
                 'qlen': query.length, 'shift': query.shift, 'start': float(start), 'end': float(end), 'rev': bool(isrev),
                 'd': self_.maxDistance})
    ctx = hooks.wrapped(al.AlignerEngine, 'align', hooks.observing(after))
    obs = e2e.observe(case, wd, trace=False, cands=False, extra_ctx=[ctx])
    e2e.note_run(case, obs, sh)


def run_e2e(spec, sh):
    for i in range(spec['cases']):
        rng = rng_for('C12e2e', spec['seed'], spec['shard'], i)
        x = rng.random()
        if x < 0.15:
            case = gen.far_reference_case(rng)
        else:
            case = gen.pipeline_case(rng, ['noisy', 'partial', 'chimeric', 'indel'], param_prob=0.5, param_keys=('d', 'p'),
                                     nq=8)
            if x < 0.25:
                gen.add_contig_sized_query(rng, case)
        core.isolated(judge_e2e, sh, case, spec['workdir'])
    if hooks.MONITOR_ERRORS:
        sh.inconclusive.append('monitor errors: %s' % hooks.MONITOR_ERRORS[:3])


def run_shard(spec):
    sh = Shard()
    {'enum': run_enum, 'random': run_random, 'e2e': run_e2e}[spec['kind']](spec, sh)
    return sh


def replay(case):
    sh = Shard()
    if case.get('kind') == 'call':
        judge(case, sh, 'replay')
    else:
        judge_e2e(case, case['workdir'], sh)
    return [{'key': v['key'], 'what': v['what']} for v in sh.violations]
