"""C09 - output does not depend on the number of worker processes or on the run."""
import collections
import os

from vf import core, gen, pipeline, text
from vf.core import Shard, rng_for

PROPERTY = 'C09'
RULE = ('inputs of 13-60 queries (classes noisy/partial/chimeric/indel/sandwich - a middle aligned part with two '
        'unaligned flanks, so one query yields two second-pass fragments -, a pair of queries of identical binned '
        'length, long molecules), all output modes; each input is run through the real CLI in subprocesses with -c in '
        '{1,2,3,4,6,8,12,16}, repeated, with different PYTHONHASHSEED values, and through vf/launch.py = the same '
        'Program(Args.parse(argv), extensions).run() plus two Extensions executing inside the worker processes: a '
        'seeded 0-40 ms sleep per (query, reference, strand) at InitialAlignmentMessage, which perturbs the completion '
        'order, and a completion log; plus the in-process M-serial run. Oracle: every output file byte-identical across '
        'all runs of one input apart from the "# coma" argument echo. Evidence reports worker counts, the number of '
        'distinct completion orders reconstructed from the logs and the spread of queries over worker pids. '
        'Per input also two side inputs of 2-7 queries (1-4 cut from the reference plus 1-3 unrelated/degenerate molecules) run with -c 1 against -c in {2, n, n+1, 8, 16}, i.e. more workers than queries; and one input with a query T+M+T whose two second-pass fragments get exactly equal confidence (flank copies a multiple of the seeding resolution apart), run with -c 2/4 and five jittered schedules. Non-trivial = input for which >= 2 distinct completion orders were observed; distinct by input hash.')
ASSUMPTIONS = ['the hostname / input-path header lines are equal because all runs of one input happen on this machine on the same files',
               'the jitter Extensions only sleep and append to a log; they are dispatched at existing dispatch points']
MINIMUMS = {'inputs': {'quick': 5, 'thorough': 30}, 'cli-runs': {'quick': 40, 'thorough': 500}, 'jittered-runs': {'quick': 10, 'thorough': 150},
            'distinct-completion-orders': {'quick': 10, 'thorough': 150}, 'second-pass-fragments-logged': {'quick': 30, 'thorough': 500}}
CPUS = [1, 2, 3, 4, 6, 8, 12, 16]


def plan(tier, seed):
    n, c = (6, 1) if tier == 'quick' else (20, 2)
    return [{'name': 's%d' % i, 'kind': 'sched', 'seed': seed, 'shard': i, 'cases': c, 'tier': tier} for i in range(n)]


def make_case(rng):
    if rng.random() < 0.25:
        case = gen.long_molecule_case(rng, nq=rng.randint(13, 20))
    else:
        case = gen.pipeline_case(rng, ['noisy', 'partial', 'chimeric', 'indel', 'sandwich', 'sandwich'], nq=rng.randint(13, 36),
                                 nref=rng.randint(1, 3), param_prob=0.2, param_keys=('d', 'p', 'ms'))
        ref = rng.choice(case['refs'])[2]
        n = min(20, len(ref) - 2)
        s = rng.randint(0, len(ref) - n - 1)
        sub = [p - ref[s] for p in ref[s:s + n]]
        qid = max(m[0] for m in case['queries']) + 1
        for pos in (sub, [sub[0]] + [p for p in sub[1:-1] if rng.random() < 0.4] + [sub[-1]]):
            p2 = [round(x + 20.0, 1) for x in pos]
            case['queries'].append([qid, round(p2[-1] + 50, 1), p2])
            case['qclass'][str(qid)] = 'same-length-pair'
            qid += 1
    case['sched_seed'] = rng.randint(0, 10 ** 6)
    return case


def norm(files):
    return {suf: text.strip_args_echo(t) for suf, t in files.items()}


def judge(case, wd, sh, tier='quick', light=False):
    rng = rng_for('C09sched', case['sched_seed'])
    slim = lambda focus: dict(pipeline.slim_case(case), kind='e2e', sched_seed=case['sched_seed'], focus=focus, tied=bool(case.get('tied')))
    sh.evaluations += 1
    sh.count('inputs')
    ref_run = pipeline.run_cli(case, wd, tag='c', cpus=1)
    sh.count('cli-runs')
    if ref_run.error:
        sh.count('aborted-runs')
        sh.inconclusive.append('reference CLI run (-c 1) aborted: %s' % ref_run.error['msg'])
        return
    base = norm(ref_run.files)
    orders = set()
    pids_per_c = {}
    runs = []
    cpus = CPUS[1:] if tier != 'quick' else [2, 3, 8, 16]
    for c in cpus:
        runs.append(('cli', c, {}, None))
    runs.append(('cli', 1, {'PYTHONHASHSEED': '12345'}, None))
    if tier != 'quick':
        runs.append(('cli', 4, {'PYTHONHASHSEED': '777'}, None))
    njit = 3 if tier == 'quick' else 6
    for k in range(njit):
        runs.append(('jitter', rng.choice([2, 3, 4, 8, 16]), {}, rng.randint(0, 10 ** 6)))
    runs.append(('jitter', 1, {}, rng.randint(0, 10 ** 6)))
    if light == 'tied':
        # equal-confidence fragments: a few plain worker counts and jittered schedules in which the two fragments of the
        # tied query finish in either order
        runs = [('cli', c, {}, None) for c in (2, 4)] + [('jitter', c, {}, rng.randint(0, 10 ** 6)) for c in (2, 2, 3, 4, 8)]
        sh.count('tied-flank-inputs')
    elif light:
        # side input with fewer queries than workers: only plain CLI runs with worker counts around and above the query count
        nq = len(case['queries'])
        runs = [('cli', c, {}, None) for c in sorted({2, nq, nq + 1, 8, 16})]
        sh.count('few-query-inputs')

    def execute(idx_run):
        idx, (how, c, env, jseed) = idx_run
        tag = 'r%d' % idx
        log = None
        if how == 'cli':
            r = pipeline.run_cli(case, wd, tag=tag, cpus=c, env=env, in_tag='c')
        else:
            log = os.path.join(wd, 'done_%d.log' % idx)
            if os.path.exists(log):
                os.remove(log)
            env = dict(env, VF_LOG=log, VF_JSEED=str(jseed), COMA_REPO=core.REPO)
            r = pipeline.run_cli(case, wd, tag=tag, cpus=c, env=env, launcher=['-m', 'vf.launch'], in_tag='c')
        return how, c, env, jseed, r, log
    from concurrent.futures import ThreadPoolExecutor
    with ThreadPoolExecutor(3) as ex:
        results = list(ex.map(execute, enumerate(runs)))
    for how, c, env, jseed, r, log in results:
        sh.count('cli-runs')
        if how == 'jitter':
            sh.count('jittered-runs')
            if log and os.path.exists(log):
                ev = sorted(tuple(ln.split()) for ln in open(log) if ln.strip())
                order = tuple((e[2], e[3], e[4]) for e in ev)
                orders.add(order)
                pids_per_c.setdefault(c, collections.Counter()).update(e[1] for e in ev)
                qlen = {str(m[0]): len(m[2]) for m in case['queries']}
                sh.count('second-pass-fragments-logged', len([e for e in ev if int(e[4]) < qlen.get(e[2], 0)]))
        what = '%s -c %d %s%s' % (how, c, env.get('PYTHONHASHSEED', ''), ' jitter seed %s' % jseed if jseed is not None else '')
        if r.error and r.error['type'] == 'HarnessTimeout':
            sh.inconclusive.append('%s hit the harness wall-clock watchdog (%s) - not a verdict' % (what, r.error['msg']))
            continue
        if r.error:
            sh.violation('run-aborts-for-some-worker-count', '%s aborted while -c 1 did not: %s' % (what, r.error['msg']), slim({'run': what}))
            continue
        got = norm(r.files)
        if got != base:
            d = [suf for suf in set(got) | set(base) if got.get(suf) != base.get(suf)]
            a = text.record_lines(base.get(d[0], ''))
            b = text.record_lines(got.get(d[0], ''))
            diffs = [(x[:90], y[:90]) for x, y in zip(a, b) if x != y][:2]
            sh.violation('output-depends-on-workers-or-run', 'file %r differs between "cli -c 1" and "%s": %d vs %d records; first differing lines %s' % (
                d[0], what, len(a), len(b), diffs), slim({'run': what, 'cpus': c, 'jseed': jseed}))
    if light == 'tied':
        return
    if light:
        sh.count('few-query-inputs-with-a-query-without-record', int(len(text.record_lines(ref_run.files.get('', ''))) < len(case['queries'])))
        return
    # M-serial fidelity (the substitution used by the other checks)
    ser = pipeline.run_inprocess(case, wd, tag='c', serial=True)
    if ser.error:
        sh.violation('serial-run-aborts', 'in-process serial run aborted while the CLI run did not: %s' % ser.error['msg'], slim({'run': 'M-serial'}))
    elif {k: text.record_lines(v) for k, v in ser.files.items()} != {k: text.record_lines(v) for k, v in ref_run.files.items()}:
        sh.violation('output-depends-on-workers-or-run', 'in-process serial map run differs from the CLI run with -c 1', slim({'run': 'M-serial'}))
    sh.count('distinct-completion-orders', len(orders))
    if len(orders) >= 2:
        sh.nt([case['refs'], case['queries'], case['mode']])
    sh.sample({'mode': case['mode'], 'queries': len(case['queries']), 'worker counts': CPUS, 'runs compared': len(runs) + 2,
               'distinct completion orders seen': len(orders),
               'queries per worker pid (by -c)': {str(c): sorted(v.values(), reverse=True)[:16] for c, v in pids_per_c.items()},
               'records per file': {k: len(text.record_lines(v)) for k, v in ref_run.files.items()}, 'verdict': 'all byte-identical'}, limit=3)


def tied_case(rng):
    """One query T + M + T: the middle M maps to one reference locus, the two identical flanks T (their copies a multiple of
    the 1400 bp seeding resolution apart) map to one other locus, so the second pass gets two fragments of the same query id
    with exactly the same confidence; which one survives must not depend on which worker finishes first. Plus a few
    ordinary queries to keep several workers busy."""
    g = lambda n: [rng.randrange(4000, 16000) for _ in range(n)]
    T, M = g(rng.randint(7, 9)), g(rng.randint(11, 14))
    ref, pos = [], 10000
    for block in (None, T, None, M, None):
        if block is None:
            for x in g(rng.randint(40, 70)):
                pos += x
                ref.append(pos)
        else:
            pos += rng.randrange(20000, 30000)
            ref.append(pos)
            for x in block:
                pos += x
                ref.append(pos)
            pos += rng.randrange(20000, 30000)
    q = [0]
    for x in T:
        q.append(q[-1] + x)
    q.append(q[-1] + 21000)
    for x in M:
        q.append(q[-1] + x)
    q.append(((q[-1] + 21000) // 1400 + 1) * 1400)
    for x in T:
        q.append(q[-1] + x)
    refs = [[1, float(pos + 10000), [float(x) for x in ref]]]
    queries, qclass = [[7, float(q[-1] + 1), [float(x) for x in q]]], {'7': 'tied-flanks'}
    for j in range(rng.randint(3, 6)):
        p2, length = gen.query_from_ref(rng, refs[0][2], rng.choice(['noisy', 'sandwich']), refs)
        queries.append([8 + j, length, p2])
        qclass[str(8 + j)] = 'filler'
    rng.shuffle(queries)
    P = dict(gen.DEFAULTS)
    if rng.random() < 0.5:
        P['diff'] = 2000000
    return {'refs': refs, 'queries': queries, 'qclass': qclass, 'params': P, 'mode': rng.choice(gen.MODES),
            'sched_seed': rng.randint(0, 10 ** 6), 'tied': True}


def small_case(rng):
    """1-4 queries cut from the reference plus 1-3 unrelated / degenerate molecules: fewer queries than workers for most -c."""
    case = gen.pipeline_case(rng, ['noisy', 'partial', 'sandwich'], nq=rng.randint(1, 4), nref=rng.randint(1, 2), param_prob=0.0)
    qid = max(m[0] for m in case['queries']) + 1
    for _ in range(rng.randint(1, 3)):
        kind, length, pos = gen.degenerate_map(rng)
        case['queries'].append([qid, length, pos])
        case['qclass'][str(qid)] = 'unrelated-' + kind
        qid += 1
    case['sched_seed'] = rng.randint(0, 10 ** 6)
    return case


def run_shard(spec):
    sh = Shard()
    for i in range(spec['cases']):
        rng = rng_for('C09', spec['seed'], spec['shard'], i)
        case = make_case(rng)
        case['gen'] = [spec['seed'], spec['shard'], i]
        judge(case, spec['workdir'], sh, spec.get('tier', 'quick'))
        for j in range(2):
            small = small_case(rng_for('C09small', spec['seed'], spec['shard'], i, j))
            small['gen'] = [spec['seed'], spec['shard'], i, 'small', j]
            wd2 = os.path.join(spec['workdir'], 'small%d_%d' % (i, j))
            os.makedirs(wd2, exist_ok=True)
            judge(small, wd2, sh, spec.get('tier', 'quick'), light=True)
        tied = tied_case(rng_for('C09tied', spec['seed'], spec['shard'], i))
        tied['gen'] = [spec['seed'], spec['shard'], i, 'tied']
        wd3 = os.path.join(spec['workdir'], 'tied%d' % i)
        os.makedirs(wd3, exist_ok=True)
        judge(tied, wd3, sh, spec.get('tier', 'quick'), light='tied')
    return sh


def replay(case):
    sh = Shard()
    judge(case, case['workdir'], sh, light='tied' if case.get('tied') else len(case['queries']) <= 7)
    return [{'key': v['key'], 'what': v['what']} for v in sh.violations]
