"""C14 - the chain is a best-scoring admissible order-respecting selection of segments."""
import math

from vf import core
from vf import direct, e2e, gen, hooks, models, pipeline
from vf.core import Shard, rng_for

PROPERTY = 'C14'
RULE = ('(a) synthetic segment sets (1-8 two-pair segments on coordinate grids of 1/100/1000 bp, both strands - reverse '
        'segments are built as the aligner builds them: coordinates ascending on both axes, query label numbers '
        'descending -, 0-2 empty segments, both join-score variants, multipliers 0/0.1/0.5/1/2) given to the real '
        'SegmentChainer.chain; (b) the same oracle attached to chain() while the real Aligner is driven with hostile '
        'seed lists (real segments, n <= 10 for the optimality clause) and during end-to-end runs. Oracle: result is a '
        'sub-list by identity, each once, non-empty ones first in non-decreasing diagonal key, all empty ones passed '
        'through; total finite; no consecutive pair overlaps by more than half the shorter one on either axis (from '
        'coordinates); total equals the maximum over ALL 2^n subsets in diagonal order (n <= 8 synthetic / 10 real; for larger n, up to 60, an independent O(n^2) model that is cross-validated against the subset enumeration on every small case of the same run; crowded sets of 10-31 segments are generated for this); every getScore is <= 0, is 0 '
        'for a contiguous join, and is -inf exactly when the coordinate overlap rule says so. Non-trivial = chain call '
        'with >= 2 non-empty input segments; distinct by content hash of the geometry.')
ASSUMPTIONS = ['inputs in which two distinct segments have equal diagonal keys are skipped for the optimality clause '
               'only (tie order is not part of the property) and counted',
               'segmentJoinMultiplier >= 0']
MINIMUMS = {'synthetic-calls': {'quick': 20000, 'thorough': 400000}, 'real-calls': {'quick': 5000, 'thorough': 80000},
            'optimality-checked': {'quick': 15000, 'thorough': 300000}, 'real-reverse-chain-calls': {'quick': 500, 'thorough': 8000},
            'getScore-calls': {'quick': 50000, 'thorough': 500000},
            'optimality-checked-by-dp-model': {'quick': 1000, 'thorough': 15000}, 'dp-model-agrees-with-subset-enumeration': {'quick': 15000, 'thorough': 300000}}


def plan(tier, seed):
    ns, cs, nd, cd, ne, ce = (8, 5000, 6, 1500, 4, 12) if tier == 'quick' else (24, 40000, 16, 8000, 8, 60)
    return ([{'name': 'syn%d' % i, 'kind': 'syn', 'seed': seed, 'shard': i, 'cases': cs} for i in range(ns)] +
            [{'name': 'dir%d' % i, 'kind': 'direct', 'seed': seed, 'shard': i, 'cases': cd} for i in range(nd)] +
            [{'name': 'e2e%d' % i, 'kind': 'e2e', 'seed': seed, 'shard': i, 'cases': ce} for i in range(ne)])


def mkseg(g, score, rid, rev):
    from src.alignment.alignment_position import ScoredAlignedPair, AlignedPair
    from src.alignment.segments import AlignmentSegment
    from src.correlation.optical_map import PositionWithSiteId
    from src.correlation.peak import Peak
    r0, r1, q0, q1 = g
    qa, qb = (rid * 10 + 2, rid * 10 + 1) if rev else (rid * 10 + 1, rid * 10 + 2)
    a = ScoredAlignedPair(AlignedPair(PositionWithSiteId(rid * 10 + 1, r0), PositionWithSiteId(qa, q0)), score / 2)
    b = ScoredAlignedPair(AlignedPair(PositionWithSiteId(rid * 10 + 2, r1), PositionWithSiteId(qb, q1)), score / 2)
    return AlignmentSegment([a, b], score, Peak(0, 1.), [a, b])


class ScoreWatch:
    """Wrapper on SequentialityScorer.getScore: judges every call against the coordinate rules."""

    def __init__(self, sh, case):
        self.sh, self.case = sh, case

    def install(self):
        import src.alignment.segment_chainer as scm
        return hooks.wrapped(scm.SequentialityScorer, 'getScore', hooks.observing(self.after))

    def after(self, a, k, res, snap):
        self_, prev, cur = a[0], a[1], a[2]
        sh = self.sh
        sh.count('getScore-calls')
        gp, gc = models.seg_geom(prev), models.seg_geom(cur)
        case = lambda: dict(self.case(), focus={'getScore': [list(gp), list(gc)], 'sj': self_.segmentJoinMultiplier,
                                                'ss': self_.sequentialityScore, 'result': res})
        if models.diag_key(gp) > models.diag_key(gc):
            sh.count('getScore-called-against-key-order')
        if res > 0:
            sh.violation('join-score-positive', 'getScore(%s, %s) = %s > 0' % (gp, gc, res), case())
        forb = models.overlap_forbidden(gp, gc)
        if forb:
            sh.count('getScore-overlap-cases')
        if forb != (res == -math.inf):
            sh.violation('join-minus-infinity-rule' + ('-reverse-strand' if cur.reverse else ''),
                         'getScore(prev %s, cur %s; reverse=%s) = %s but the overlap rule computed from coordinates says %s'
                         % (gp, gc, cur.reverse, res, 'inadmissible (-inf)' if forb else 'admissible (finite)'), case())
        if gc[0] - gp[1] == 0 and gc[2] - gp[3] == 0 and not forb and res != 0:
            sh.violation('contiguous-join-not-zero', 'getScore of a perfectly contiguous join = %s' % res, case())


def judge_chain(chainer, segments, result, sh, case, tag, optimal_max=8):
    """segments: the list given to chain(); result: what it returned."""
    segments = list(segments)
    ne_in = [s for s in segments if not s.empty]
    sh.count(tag + '-calls')
    if len(ne_in) >= 2:
        sh.nt([list(models.seg_geom(s)) + [s.segmentScore] for s in ne_in])
        if any(s.reverse for s in ne_in):
            sh.count(tag + '-reverse-chain-calls')
    ids = {id(s) for s in segments}
    if any(id(s) not in ids for s in result) or len({id(s) for s in result}) != len(result):
        sh.violation('chain-not-a-sublist', 'chain returned a segment that was not given, or one twice', case())
        return
    res_ne = [s for s in result if not s.empty]
    n_empty_in = len(segments) - len(ne_in)
    if len(result) - len(res_ne) != n_empty_in:
        sh.violation('empty-segments-not-passed-through', '%d empty segments in, %d out' % (n_empty_in, len(result) - len(res_ne)), case())
    if any(s.empty for s in result[:len(res_ne)]):
        sh.violation('empty-segment-before-non-empty', 'empty segments are not last', case())
    if ne_in and not res_ne:
        sh.violation('chain-empty', 'non-empty segments given but none selected', case())
        return
    if not ne_in:
        return
    keys = [models.diag_key(models.seg_geom(s)) for s in res_ne]
    if keys != sorted(keys):
        sh.violation('chain-not-in-diagonal-order', 'keys %s' % keys, case())
        return
    scorer = chainer.sequentialityScorer
    tot = sum(s.segmentScore for s in res_ne)
    for a, b in zip(res_ne, res_ne[1:]):
        j = scorer.getScore(a, b)
        tot += j
        if models.overlap_forbidden(models.seg_geom(a), models.seg_geom(b)):
            sh.violation('consecutive-members-overlap-more-than-half' + ('-reverse-strand' if b.reverse else ''),
                         'consecutive chain members %s and %s (reverse=%s) overlap by more than half the shorter one'
                         % (models.seg_geom(a), models.seg_geom(b), b.reverse), case())
    if tot == -math.inf or tot != tot:
        sh.violation('chain-total-not-finite', 'total %s' % tot, case())
        return
    if len(res_ne) >= 2:
        sh.count('chains-with-2+-members')
    allkeys = [models.diag_key(models.seg_geom(s)) for s in ne_in]
    if len(set(allkeys)) != len(allkeys):
        sh.count('tied-keys-skipped-for-optimality')
        return
    order = sorted(ne_in, key=lambda s: models.diag_key(models.seg_geom(s)))
    dp = models.best_chain_dp(order, lambda s: s.segmentScore, scorer.getScore) if len(ne_in) <= 60 else None
    if len(ne_in) > optimal_max:
        if dp is None:
            sh.count('too-large-for-any-optimality-model')
            return
        sh.count('optimality-checked-by-dp-model')
        best = dp
    else:
        best = models.best_subset_total(order, lambda s: s.segmentScore, scorer.getScore)
        sh.count('optimality-checked')
        if abs(best - dp) > 1e-6 * max(1.0, abs(best)):
            sh.inconclusive.append('the DP reference model disagrees with subset enumeration (%s vs %s)' % (dp, best))
        else:
            sh.count('dp-model-agrees-with-subset-enumeration')
    if abs(best - tot) > 1e-6 * max(1.0, abs(best)):
        sh.violation('chain-suboptimal', 'chain total %s but the best order-respecting subset scores %s (n=%d, sj=%s, ss=%s)'
                     % (tot, best, len(ne_in), scorer.segmentJoinMultiplier, scorer.sequentialityScore), case())


def syn_case(rng):
    if rng.random() < 0.12:
        return crowded_case(rng)
    n = rng.randint(1, 8)
    rev = rng.random() < 0.5
    grid = rng.choice([1, 100, 1000])
    segs = []
    for i in range(n):
        r0 = rng.randint(0, 60) * grid
        L = rng.randint(0, 12) * grid
        q0 = r0 + rng.randint(-6, 6) * grid
        LQ = max(0, L + rng.randint(-2, 2) * grid)
        segs.append([[r0, r0 + L, q0, q0 + LQ], rng.choice([1000, 1500, 3000, 8000])])
    return {'kind': 'syn', 'segs': segs, 'rev': rev, 'empties': rng.randint(0, 2), 'sj': rng.choice([0.0, 0.1, 0.5, 1.0, 2.0]),
            'ss': rng.choice([0, 1]), 'perm': rng.randint(0, 10 ** 6)}


def crowded_case(rng):
    """Two (or three) contiguous strong segments separated in diagonal order by many weak off-diagonal ones."""
    grid = rng.choice([100, 1000])
    rev = rng.random() < 0.5
    segs = []
    L = rng.randint(8, 12) * grid
    r0 = rng.randint(5, 20) * grid
    nstrong = rng.randint(2, 3)
    gap = rng.randint(0, 2) * grid
    span_start = r0
    for k in range(nstrong):
        segs.append([[r0, r0 + L, r0, r0 + L], rng.choice([8000, 9000])])
        r0 += L + gap
    span_end = r0
    for _ in range(rng.randint(3, 28)):
        # weak segments whose diagonal key falls between the strong ones but which lie far off the diagonal
        mid = rng.randint(span_start, span_end)
        off = rng.choice([-1, 1]) * rng.randint(30, 80) * grid
        l2 = rng.randint(1, 3) * grid
        segs.append([[mid + off, mid + off + l2, max(0, mid - off), max(0, mid - off) + l2], rng.choice([1000, 1200])])
    return {'kind': 'syn', 'segs': segs, 'rev': rev, 'empties': rng.randint(0, 1), 'sj': rng.choice([0.5, 1.0, 2.0]),
            'ss': rng.choice([0, 1]), 'perm': rng.randint(0, 10 ** 6), 'crowded': True}


def judge_syn(case, sh):
    import random
    from src.alignment.segment_chainer import SegmentChainer, SequentialityScorer
    from src.alignment.segments import EmptyAlignmentSegment
    segs = [mkseg(g, sc, i, case['rev']) for i, (g, sc) in enumerate(case['segs'])]
    allsegs = segs + [EmptyAlignmentSegment() for _ in range(case['empties'])]
    random.Random(case['perm']).shuffle(allsegs)
    chainer = SegmentChainer(SequentialityScorer(case['sj'], case['ss']))
    sh.evaluations += 1
    with ScoreWatch(sh, lambda: case).install():
        res = chainer.chain(allsegs)
        judge_chain(chainer, allsegs, res, sh, lambda: case, 'synthetic')
        if case.get('crowded'):
            sh.count('crowded-cases')
            if len(segs) > 9:
                sh.count('crowded-cases-with-10+-segments')
    if len(sh.samples) < 2 and len(segs) >= 4 and len([s for s in res if not s.empty]) >= 3:
        sh.sample({'kind': 'synthetic', 'segments [r0,r1,q0,q1],score': case['segs'], 'reverse': case['rev'],
                   'sj': case['sj'], 'ss': case['ss'],
                   'chain': [list(models.seg_geom(s)) for s in res if not s.empty], 'verdict': 'optimal among all subsets'})


class ChainWatch:
    def __init__(self, sh, case):
        self.sh, self.case = sh, case

    def install(self):
        import contextlib
        import src.alignment.segment_chainer as scm
        st = contextlib.ExitStack()

        def make(orig):
            def chain(self_, segments):
                segments = segments if isinstance(segments, list) else list(segments)
                res = orig(self_, segments)
                try:
                    judge_chain(self_, segments, list(res), self.sh, self.case, 'real', optimal_max=10)
                except Exception:
                    import traceback
                    hooks.MONITOR_ERRORS.append(traceback.format_exc()[-600:])
                return res
            return chain
        st.enter_context(ScoreWatch(self.sh, self.case).install())
        st.enter_context(hooks.wrapped(scm.SegmentChainer, 'chain', make))
        return st


def judge_direct(case, sh):
    sh.evaluations += 1
    with ChainWatch(sh, lambda: case).install():
        try:
            direct.run_direct(case)
        except Exception as ex:
            sh.count('direct-raised:' + type(ex).__name__)


def judge_e2e(case, wd, sh):
    obs = e2e.observe(case, wd, trace=False, cands=False,
                      extra_ctx=[ChainWatch(sh, lambda: dict(pipeline.slim_case(case), kind='e2e')).install()])
    e2e.note_run(case, obs, sh)


def run_shard(spec):
    sh = Shard()
    for i in range(spec['cases']):
        rng = rng_for('C14' + spec['kind'], spec['seed'], spec['shard'], i)
        if spec['kind'] == 'syn':
            judge_syn(syn_case(rng), sh)
        elif spec['kind'] == 'direct':
            case = gen.direct_align_case(rng)
            judge_direct(case, sh)
        else:
            case = gen.pipeline_case(rng, ['noisy', 'indel', 'indel', 'chimeric', 'partial'], param_prob=0.7,
                                     param_keys=('sj', 'ss', 'd', 'ms', 'bs', 'p'))
            case['kind'] = 'e2e'
            core.isolated(judge_e2e, sh, case, spec['workdir'])
    if hooks.MONITOR_ERRORS:
        sh.inconclusive.append('monitor errors: %s' % hooks.MONITOR_ERRORS[:3])
    return sh


def replay(case):
    sh = Shard()
    if case.get('kind') == 'syn':
        judge_syn(case, sh)
    elif case.get('kind') == 'direct':
        judge_direct(case, sh)
    else:
        judge_e2e(case, case['workdir'], sh)
    return [{'key': v['key'], 'what': v['what']} for v in sh.violations]
