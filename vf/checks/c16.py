"""C16 - vectorisation, blur and bin-to-bp mapping are exact; seeds are the top peaks."""
import itertools

import numpy as np

from vf import core
from vf import e2e, gen, hooks, pipeline
from vf.core import Shard, rng_for

PROPERTY = 'C16'
RULE = ('[also: a wrapper on OpticalMap.getSequence end to end requires every vector to be that of the map\'s own labels - second-pass fragments share id and length with their molecule] '
        '(a) exhaustive small cases: vectorisePositions on every multiset of 1-4 labels on 0..13, resolutions 1/2/3/5, '
        'six starts (negative included), eight ends (None, before the last label, beyond it); blur on every bit vector '
        'up to length 8 (quick) / 12 (thorough), radius 0-3; toRelativeGenomicPositions for resolutions 1-11 (quick), '
        'plus 100/700/1400/1500 (thorough), three starts, every coordinate of five bins; (b) random label lists with '
        'float coordinates, large resolutions; random peak lists for PeaksSelector.selectPeaks (ties included); (c) '
        'end to end: wrappers on find_peaks / getInitialAlignment / selectPeaks take every primary peak (heights from find_peaks, scores as the code assigns them; they must be monotone in height within a correlation) and require the peaks kept per correlation to be its '
        'peaksCount highest and the selected seeds to be the peaksCount highest-scoring of all, in descending order. '
        'Non-trivial = vector with >= 1 set bit / selection that had to truncate; enumerated cases distinct by construction.')
ASSUMPTIONS = ['bits beyond `end` are checked for exactness when emitted but their presence is not required',
               'ties between equal peak scores are free (multiset comparison)']
MINIMUMS = {'vectorise-calls': {'quick': 300000, 'thorough': 1000000}, 'blur-calls': {'quick': 2000, 'thorough': 30000},
            'conv-calls': {'quick': 900, 'thorough': 15000}, 'select-calls': {'quick': 2000, 'thorough': 20000},
            'e2e-selections': {'quick': 300, 'thorough': 3000}, 'e2e-selections-truncated': {'quick': 100, 'thorough': 1000},
            'e2e-correlations-truncated': {'quick': 50, 'thorough': 500},
            'e2e-positionsToSequence-calls': {'quick': 5000, 'thorough': 50000}, 'e2e-positionsToSequence-negative-start': {'quick': 20, 'thorough': 300},
            'e2e-getSequence-calls': {'quick': 5000, 'thorough': 50000}, 'e2e-getSequence-calls-on-fragments': {'quick': 200, 'thorough': 3000}}


def plan(tier, seed):
    shards = []
    combos = [(res, n) for res in (1, 2, 3, 5) for n in range(1, 5)]
    for i, (res, n) in enumerate(combos):
        shards.append({'name': 'vec%d' % i, 'kind': 'vec', 'res': res, 'n': n, 'G': 14 if tier == 'quick' else 16})
    shards.append({'name': 'blur', 'kind': 'blur', 'L': 8 if tier == 'quick' else 12})
    shards.append({'name': 'conv', 'kind': 'conv', 'thorough': tier != 'quick'})
    nr, cr = (2, 3000) if tier == 'quick' else (8, 12000)
    shards += [{'name': 'rnd%d' % i, 'kind': 'random', 'seed': seed, 'shard': i, 'cases': cr} for i in range(nr)]
    ne, ce = (8, 8) if tier == 'quick' else (24, 30)
    shards += [{'name': 'e2e%d' % i, 'kind': 'e2e', 'seed': seed, 'shard': i, 'cases': ce} for i in range(ne)]
    return shards


def judge_vec(pos, res, start, end, sh, tag):
    from src.correlation.vectorise import vectorisePositions
    sh.count('vectorise-calls')
    sh.evaluations += 1
    case = {'kind': 'vec', 'pos': list(pos), 'res': res, 'start': start, 'end': end}
    try:
        v = list(vectorisePositions(list(pos), res, start, end))
    except Exception as ex:
        sh.violation('vectorise-raises:' + type(ex).__name__, 'vectorisePositions(%s, %s, %s, %s) raised %r' % (pos, res, start, end, ex), case)
        return None
    e_eff = end if end is not None and end != 0 else pos[-1]    # `end or positions[-1]`: 0 means "to the last label"
    exp = [1 if any(start + i * res <= p < start + (i + 1) * res for p in pos) else 0 for i in range(len(v))]
    if v != exp:
        sh.violation('vector-bits-wrong', 'vectorisePositions(%s, res=%s, start=%s, end=%s) = %s, expected prefix %s' % (
            list(pos)[:12], res, start, end, v[:40], exp[:40]), case)
        return v
    for p in pos:
        if start <= p <= e_eff and (p - start) // res >= len(v):
            sh.violation('label-not-covered', 'label %s in [start=%s, end=%s] lies beyond the %d emitted bits (res %s)' % (
                p, start, end, len(v), res), case)
            break
    return v


def run_vec(spec, sh):
    sh.exhaustive = True
    res, n, G = spec['res'], spec['n'], spec['G']
    for pos in itertools.combinations_with_replacement(range(0, G), n):
        for start in (-4, -1, 0, 1, 3, 7):
            for end in (None, -2, 0, 2, 5, 9, 13, 20):
                v = judge_vec(pos, res, start, end, sh, 'enum')
                sh.space += 1
                if v and any(v):
                    sh.nontrivial_enum += 1
                    if len(sh.samples) < 1 and n == 3 and start == -1 and end == 9:
                        sh.sample({'kind': 'vectorise', 'positions': list(pos), 'resolution': res, 'start': start, 'end': end, 'bits': v})


def judge_blur(bits, r, sh):
    from src.correlation.vectorise import blur
    sh.count('blur-calls')
    sh.evaluations += 1
    L = len(bits)
    case = {'kind': 'blur', 'bits': list(bits), 'r': r}
    try:
        out = [int(x) for x in blur(list(bits), r)]
    except Exception as ex:
        sh.violation('blur-raises:' + type(ex).__name__, 'blur(%s, %s) raised %r' % (bits, r, ex), case)
        return
    exp = [1 if any(bits[j] for j in range(max(0, i - r), min(L, i + r + 1))) else 0 for i in range(L)]
    if out != exp:
        sh.violation('blur-wrong', 'blur(%s, %s) = %s, expected %s' % (list(bits), r, out, exp), case)


def run_blur(spec, sh):
    sh.exhaustive = True
    for L in range(0, spec['L'] + 1):
        for bits in itertools.product([0, 1], repeat=L):
            for r in range(0, 4):
                judge_blur(bits, r, sh)
                sh.space += 1
                if any(bits):
                    sh.nontrivial_enum += 1


def seq_model(pos, res, blur_r, start, n):
    """Bits 0..n-1 of blur(vectorise(pos)) relative to `start`, written from the statement."""
    import math
    raw = [0] * n
    for p in pos:
        i = math.floor((p - start) / res)
        # guard the float division at bin borders with the defining inequality
        while start + i * res > p:
            i -= 1
        while start + (i + 1) * res <= p:
            i += 1
        if 0 <= i < n:
            raw[i] = 1
    if blur_r == 0:
        return raw
    pre = [0]
    for b in raw:
        pre.append(pre[-1] + b)
    return [1 if pre[min(n, i + blur_r + 1)] - pre[max(0, i - blur_r)] > 0 else 0 for i in range(n)]


def judge_sequence(pos, res, blur_r, start, end, sh, case, tag):
    """SequenceGenerator.positionsToSequence: the composition the pipeline actually uses (window start included)."""
    from src.correlation.sequence_generator import SequenceGenerator
    sh.count(tag + 'positionsToSequence-calls')
    try:
        out = [int(x) for x in SequenceGenerator(res, blur_r).positionsToSequence(list(pos), start, end)]
    except Exception as ex:
        sh.violation('positionsToSequence-raises:' + type(ex).__name__, 'positionsToSequence(%s.., res=%s, blur=%s, start=%s, end=%s) raised %r' % (list(pos)[:6], res, blur_r, start, end, ex), case)
        return
    judge_sequence_result(out, pos, res, blur_r, start, end, sh, case)


def judge_sequence_result(out, pos, res, blur_r, start, end, sh, case):
    exp = seq_model(pos, res, blur_r, start, len(out))
    if out != exp:
        i = next(k for k, (a, b) in enumerate(zip(out, exp)) if a != b)
        sh.violation('sequence-bits-wrong', 'positionsToSequence(res=%s, blur=%s, start=%s, end=%s): bit %d is %d, expected %d (labels near: %s)' % (
            res, blur_r, start, end, i, out[i], exp[i], [p for p in pos if abs(p - (start + i * res)) < (blur_r + 2) * res][:6]), case)
        return
    e_eff = end if end not in (None, 0) else (pos[-1] if pos else 0)
    for p in pos:
        if start <= p <= e_eff and (p - start) // res >= len(out):
            sh.violation('sequence-label-not-covered', 'label %s in [start=%s, end=%s] lies beyond the %d emitted bits' % (p, start, end, len(out)), case)
            break


def judge_conv(res, start, p, sh):
    from src.correlation.optical_map import toRelativeGenomicPositions
    sh.count('conv-calls')
    sh.evaluations += 1
    b = (p - start) // res
    c = float(toRelativeGenomicPositions(np.array([b]), res, start)[0])
    lo = start + b * res
    hi = lo + res - 1
    case = {'kind': 'conv', 'res': res, 'start': start, 'p': p}
    if abs(c - p) > res / 2:
        sh.violation('bin-to-bp-more-than-half-resolution-off', 'coordinate %s (bin %s, res %s, start %s) converts back to %s' % (p, b, res, start, c), case)
    elif abs((c - lo) - (hi - c)) > 1:
        sh.violation('bin-to-bp-not-centre', 'bin %s [%s..%s] converts to %s, not its centre' % (b, lo, hi, c), case)


def run_conv(spec, sh):
    sh.exhaustive = True
    ress = list(range(1, 12)) + ([100, 700, 1400, 1500] if spec['thorough'] else [])
    for res in ress:
        for start in (-7, 0, 13):
            for p in range(start, start + 5 * res):
                judge_conv(res, start, p, sh)
                sh.space += 1
                sh.nontrivial_enum += 1


def judge_select(scores, count, sh):
    from src.correlation.peaks_selector import PeaksSelector
    from src.correlation.peak import Peak

    class C:
        def __init__(self, peaks):
            self.peaks = peaks
    sh.count('select-calls')
    sh.evaluations += 1
    corrs = [C([Peak(i * 100 + j, 1.0, 0, 0, s) for j, s in enumerate(lst)]) for i, lst in enumerate(scores)]
    out = PeaksSelector(count).selectPeaks(iter(corrs))
    got = [sp.peak.score for sp in out]
    allp = sorted((s for lst in scores for s in lst), reverse=True)
    case = {'kind': 'select', 'scores': scores, 'count': count}
    if got != sorted(got, reverse=True):
        sh.violation('seeds-not-descending', 'selected scores %s' % got, case)
    elif got != allp[:count]:
        sh.violation('seeds-not-the-top-peaks', 'selected %s, the %d highest are %s' % (got, count, allp[:count]), case)
    elif any(sp.peak not in sp.primaryCorrelation.peaks for sp in out):
        sh.violation('seed-attributed-to-wrong-correlation', 'a selected peak is attached to a correlation it does not belong to', case)


def run_random(spec, sh):
    for i in range(spec['cases']):
        rng = rng_for('C16rnd', spec['seed'], spec['shard'], i)
        res = rng.choice([1, 7, 100, 1400, 333])
        n = rng.randint(1, 40)
        pos = sorted(round(rng.uniform(0, res * 60), rng.choice([0, 1])) for _ in range(n))
        start = rng.choice([0, 0, -res * 3, int(pos[0]) - 5, res * 10, -16000])
        end = rng.choice([None, None, pos[-1] + res * 2, pos[len(pos) // 2], start + res * 5])
        v = judge_vec(pos, res, start, end, sh, 'random')
        sh.nt(['vec', pos, res, start, end])
        b = rng.choice([0, 1, 4])
        judge_sequence(pos, res, b, start, end, sh, {'kind': 'seq', 'pos': pos, 'res': res, 'blur': b, 'start': start, 'end': end}, 'random-')
        L = rng.randint(0, 40)
        bits = [1 if rng.random() < 0.2 else 0 for _ in range(L)]
        judge_blur(bits, rng.randint(0, 6), sh)
        scores = [[round(rng.choice([rng.uniform(0, 1), 0.5, 0.25]), 3) for _ in range(rng.randint(0, 5))] for _ in range(rng.randint(0, 6))]
        judge_select(scores, rng.choice([1, 2, 3, 6, 8]), sh)
        sh.nt(['sel', scores])


def judge_e2e(case, wd, sh):
    import src.correlation.optical_map as om
    import src.correlation.peaks_selector as psel
    import contextlib
    ctx = {'stack': [], 'byquery': {}}
    slim = lambda: dict(pipeline.slim_case(case), kind='e2e')

    def mk_fp(orig):
        def fp(x, *a, **k):
            r = orig(x, *a, **k)
            if ctx['stack']:
                ctx['stack'][-1]['fp'] = (np.array(x, copy=True), r[0].copy(), r[1]['peak_heights'].copy())
            return r
        return fp

    def mk_gia(orig):
        def gia(self, reference, gen_, md, pc, reverseStrand=False):
            ctx['stack'].append({})
            try:
                out = orig(self, reference, gen_, md, pc, reverseStrand)
            finally:
                c = ctx['stack'].pop()
            try:
                lst = ctx['byquery'].setdefault(id(self), [])
                if 'fp' in c:
                    corr, pos, h = c['fp']
                    nz = corr[corr != 0]
                    rms = float(np.sqrt(np.mean(nz ** 2))) if nz.size else float('nan')
                    kept = sorted((p.height for p in out.peaks), reverse=True)
                    exp = sorted(map(float, h), reverse=True)[:pc]
                    sh.count('e2e-correlations')
                    if len(h) > pc:
                        sh.count('e2e-correlations-truncated')
                    if len(kept) != len(exp) or not np.allclose(kept, exp, equal_nan=True):
                        sh.violation('per-correlation-peaks-not-the-highest', 'kept heights %s, the %d highest of %d are %s' % (kept[:8], pc, len(h), exp[:8]), slim())
                    # Within one correlation the score must rank the peaks as their heights do (whatever the noise term is);
                    # the kept peaks - verified above to be the pc highest - enter the query-wide ranking with the score the
                    # code gave them, so the oracle does not depend on how the score is defined.
                    ks = sorted(out.peaks, key=lambda p: -p.height)
                    if any(a.score < b.score - 1e-12 for a, b in zip(ks, ks[1:])):
                        sh.violation('peak-score-not-monotone-in-height', 'scores %s for heights %s' % ([p.score for p in ks][:6], [p.height for p in ks][:6]), slim())
                    lst.append([float(p.score) for p in out.peaks])
                    if any(abs(p.score - (p.height - rms)) > 1e-9 for p in out.peaks if p.score == p.score):
                        sh.count('peak-score-differs-from-height-minus-rms(informational)')
                else:
                    lst.append([])
            except Exception:
                import traceback
                hooks.MONITOR_ERRORS.append(traceback.format_exc()[-500:])
            return out
        return gia

    def mk_sel(orig):
        def sel(self, correlations):
            cl = list(correlations)
            out = orig(self, iter(cl))
            try:
                sh.count('e2e-selections')
                q = cl[0].query if cl else None
                if q is not None:
                    allscores = sorted((s for lst in ctx['byquery'].pop(id(q), []) for s in lst if s == s), reverse=True)
                    got = [sp.peak.score for sp in out]
                    if len(allscores) > self.count:
                        sh.count('e2e-selections-truncated')
                        sh.nt(['e2esel', [round(x, 6) for x in allscores[:12]]])
                    if got != sorted(got, reverse=True):
                        sh.violation('seeds-not-descending', '[end-to-end] selected scores %s' % got, slim())
                    exp = allscores[:self.count]
                    if len(got) != len(exp) or not np.allclose(got, exp):
                        sh.violation('seeds-not-the-top-peaks', '[end-to-end] query %s: selected %s, the %d highest of all primary peaks are %s' % (
                            q.moleculeId, [round(x, 4) for x in got], self.count, [round(x, 4) for x in exp]), slim())
                    elif len(sh.samples) < 1 and len(allscores) > self.count:
                        sh.sample({'kind': 'end-to-end seed selection', 'query': q.moleculeId, 'peaksCount': self.count,
                                   'all primary peak scores (desc)': [round(x, 4) for x in allscores[:10]],
                                   'selected': [round(x, 4) for x in got]})
            except Exception:
                import traceback
                hooks.MONITOR_ERRORS.append(traceback.format_exc()[-500:])
            return out
        return sel
    import src.correlation.sequence_generator as sgm

    def after_seq(a, k, res, snap):
        self_, positions = a[0], a[1]
        start = a[2] if len(a) > 2 else k.get('start', 0)
        end = a[3] if len(a) > 3 else k.get('end')
        sh.count('e2e-positionsToSequence-calls')
        if start < 0:
            sh.count('e2e-positionsToSequence-negative-start')
        judge_sequence_result([int(x) for x in res], list(positions), self_.resolution, self_.blurRadius, start, end, sh, slim())
    def after_getseq(a, k, res, snap):
        self_, g = a[0], a[1]
        rev = a[2] if len(a) > 2 else k.get('reverseStrand', False)
        start = a[3] if len(a) > 3 else k.get('start', 0)
        end = a[4] if len(a) > 4 else k.get('end')
        sh.count('e2e-getSequence-calls')
        if self_.shift or (self_.positions and self_.positions[0] != 0 and self_.moleculeId in qids):
            sh.count('e2e-getSequence-calls-on-fragments')
        out = [int(x) for x in res]
        if rev:
            out = out[::-1]
        judge_sequence_result(out, list(self_.positions), g.resolution, g.blurRadius, start, end, sh, slim())
    qids = {m[0] for m in case['queries']}
    st = [hooks.wrapped(om.OpticalMap, 'getSequence', hooks.observing(after_getseq)),
          hooks.wrapped(sgm.SequenceGenerator, 'positionsToSequence', hooks.observing(after_seq)),
          hooks.wrapped(om, 'find_peaks', mk_fp), hooks.wrapped(om.OpticalMap, 'getInitialAlignment', mk_gia),
          hooks.wrapped(psel.PeaksSelector, 'selectPeaks', mk_sel)]
    obs = e2e.observe(case, wd, trace=False, cands=False, extra_ctx=st)
    e2e.note_run(case, obs, sh)


def run_e2e(spec, sh):
    for i in range(spec['cases']):
        rng = rng_for('C16e2e', spec['seed'], spec['shard'], i)
        case = gen.pipeline_case(rng, ['clean', 'noisy', 'noisy', 'sandwich', 'partial'], nq=10, nref=rng.randint(1, 4), mode='separate',
                                 param_prob=0.0, ref_kw={'repeats': rng.random() < 0.6})
        case['params']['p'] = rng.choice([1, 2, 3, 6])
        case['params']['md'] = rng.choice([20000, 1400, 5000])
        core.isolated(judge_e2e, sh, case, spec['workdir'])
    if hooks.MONITOR_ERRORS:
        sh.inconclusive.append('monitor errors: %s' % hooks.MONITOR_ERRORS[:3])


def run_shard(spec):
    sh = Shard()
    {'vec': run_vec, 'blur': run_blur, 'conv': run_conv, 'random': run_random, 'e2e': run_e2e}[spec['kind']](spec, sh)
    return sh


def replay(case):
    sh = Shard()
    k = case.get('kind')
    if k == 'vec':
        judge_vec(case['pos'], case['res'], case['start'], case['end'], sh, 'replay')
    elif k == 'blur':
        judge_blur(case['bits'], case['r'], sh)
    elif k == 'conv':
        judge_conv(case['res'], case['start'], case['p'], sh)
    elif k == 'seq':
        judge_sequence(case['pos'], case['res'], case['blur'], case['start'], case['end'], sh, case, 'replay-')
    elif k == 'select':
        judge_select(case['scores'], case['count'], sh)
    else:
        judge_e2e(case, case['workdir'], sh)
    return [{'key': v['key'], 'what': v['what']} for v in sh.violations]
