"""C03 - HitEnum is a faithful run-length encoding of the aligned pairs."""
import itertools

from vf import core, e2e, gen, oracles, pipeline
from vf.core import Shard, rng_for

PROPERTY = 'C03'
RULE = ('(a) exhaustive: every order-preserving matching with >= 1 pair on an R x Q label grid (R,Q <= 7 quick, <= 9 '
        'thorough), both orientations, the pairs split over 1-3 segments, built with the real AlignmentResultRow / '
        'AlignmentSegment classes; row.cigarString is replayed by an automaton written from the statement. '
        '(b) random matchings on a 200 x 200 grid with long gaps. (c) every record of end-to-end runs with -ms 300..500 '
        '(one-pair records occur): HitEnum column vs Alignment column, and row.cigarString vs the column. '
        'Non-trivial = matching with at least one skipped label (D or I run) or exactly one pair; enumerated cases are '
        'distinct by construction, random/e2e ones by content hash.')
ASSUMPTIONS = ['end-to-end records that violate C01 are skipped (the encoding of an invalid matching is undefined)']
MINIMUMS = {'grid-rows': {'quick': 20000, 'thorough': 200000}, 'e2e-records': {'quick': 800, 'thorough': 10000},
            'one-pair-rows': {'quick': 50, 'thorough': 200}, 'one-pair-e2e-records': {'quick': 1, 'thorough': 10}}


def plan(tier, seed):
    G = 7 if tier == 'quick' else 9
    sizes = [(r, q) for r in range(1, G + 1) for q in range(1, G + 1)]
    sizes.sort(key=lambda s: -s[0] - s[1])
    nsh = 8 if tier == 'quick' else 24
    shards = [{'name': 'grid%d' % i, 'kind': 'grid', 'sizes': sizes[i::nsh], 'seed': seed} for i in range(nsh)]
    nr, cr = (4, 1500) if tier == 'quick' else (16, 6000)
    shards += [{'name': 'rnd%d' % i, 'kind': 'random', 'seed': seed, 'shard': i, 'cases': cr} for i in range(nr)]
    ne, ce = (12, 18) if tier == 'quick' else (48, 75)
    shards += [{'name': 'e2e%d' % i, 'kind': 'e2e', 'seed': seed, 'shard': i, 'cases': ce} for i in range(ne)]
    return shards


def build_row(pairs, rev, cuts, coin=()):
    """coin: pair indices whose query AND reference label coordinates equal those of the previous pair (coincident labels
    are legal CMAP content; site ids stay distinct)."""
    from src.alignment.alignment_position import AlignedPair, ScoredAlignedPair
    from src.alignment.alignment_results import AlignmentResultRow
    from src.alignment.segments import AlignmentSegment
    from src.correlation.optical_map import PositionWithSiteId
    from src.correlation.peak import Peak
    pos = []
    rp = qp = 0
    for i, (r, q) in enumerate(pairs):
        if i == 0 or i not in coin:
            rp, qp = r * 1000, i * 1000
        pos.append(ScoredAlignedPair(AlignedPair(PositionWithSiteId(r, rp), PositionWithSiteId(q, qp)), 1000.))
    segs = []
    prev = 0
    for c in list(cuts) + [len(pos)]:
        part = pos[prev:c]
        prev = c
        if part:
            segs.append(AlignmentSegment(part, 1000. * len(part), Peak(0, 1.), part))
    return AlignmentResultRow(segs, 7, 1, 10 ** 6, 10 ** 6, 0, 0, 0, 0, rev, 0.)


def judge_pairs(pairs, rev, cuts, sh, tag, coin=()):
    row = build_row(pairs, rev, cuts, coin)
    if coin:
        sh.count('rows-with-coincident-label-coordinates')
    sh.evaluations += 1
    sh.count(tag + '-rows')
    try:
        hit = row.cigarString
    except Exception as ex:
        info = pipeline.error_info(ex)
        sh.violation('cigarString-raises:%s' % info['type'], 'cigarString raised %s on pairs %s rev=%s' % (
            info['msg'], pairs[:20], rev), {'kind': 'pairs', 'pairs': pairs, 'rev': rev, 'cuts': list(cuts), 'coin': list(coin)})
        return
    if len(pairs) == 1:
        sh.count('one-pair-rows')
    errs = oracles.hitenum(hit, pairs, '-' if rev else '+')
    for k, t in errs[:1]:
        sh.violation(k, 'pairs %s rev=%s segments cut at %s: %s' % (pairs[:20], rev, list(cuts), t),
                     {'kind': 'pairs', 'pairs': pairs, 'rev': rev, 'cuts': list(cuts), 'coin': list(coin)})
    return hit


def run_grid(spec, sh):
    sh.exhaustive = True
    for R, Q in spec['sizes']:
        for k in range(1, min(R, Q) + 1):
            for rs in itertools.combinations(range(1, R + 1), k):
                for qs_ in itertools.combinations(range(1, Q + 1), k):
                    gaps = (rs[-1] - rs[0] + 1 != k) or (qs_[-1] - qs_[0] + 1 != k)
                    for rev in (False, True):
                        pairs = [list(p) for p in zip(rs, reversed(qs_) if rev else qs_)]
                        cutsets = [()]
                        if k >= 2:
                            cutsets.append((k // 2,))
                        if k >= 3:
                            cutsets.append((1, k - 1))
                        for cuts in cutsets:
                            hit = judge_pairs(pairs, rev, cuts, sh, 'grid')
                            if k >= 2 and not cuts:
                                for ci in sorted({1, k // 2, k - 1} - {0}):
                                    judge_pairs(pairs, rev, cuts, sh, 'grid', coin=(ci,))
                            sh.space += 1
                            if gaps or k == 1:
                                sh.nontrivial_enum += 1
                            if gaps and k >= 3 and len(sh.samples) < 2 and R >= 5:
                                sh.sample({'kind': 'grid', 'grid': [R, Q], 'pairs': pairs, 'rev': rev,
                                           'segments_cut_at': list(cuts), 'cigarString': hit,
                                           'verdict': 'replay reproduces the pairs'})


def run_random(spec, sh):
    for i in range(spec['cases']):
        rng = rng_for('C03rnd', spec['seed'], spec['shard'], i)
        k = rng.choice([1, 2, 3, 5, 10, 40, 120])
        r, q = rng.randint(1, 30), rng.randint(1, 30)
        rs, qs_ = [], []
        for _ in range(k):
            rs.append(r)
            qs_.append(q)
            r += 1 + (rng.choice([0, 0, 0, 1, 2, 7, 60]) if rng.random() < 0.5 else 0)
            q += 1 + (rng.choice([0, 0, 0, 1, 2, 9, 45]) if rng.random() < 0.5 else 0)
        rev = rng.random() < 0.5
        pairs = [list(p) for p in zip(rs, reversed(qs_) if rev else qs_)]
        cuts = sorted(set(rng.randint(1, k) for _ in range(rng.randint(0, 3)))) if k > 1 else []
        cuts = [c for c in cuts if c < k]
        coin = tuple(sorted(set(rng.randint(1, k - 1) for _ in range(rng.randint(1, 3))))) if k > 1 and rng.random() < 0.4 else ()
        judge_pairs(pairs, rev, cuts, sh, 'random', coin)
        sh.nt([pairs, rev])


def judge_e2e(case, wd, sh):
    obs = e2e.observe(case, wd, trace=False, cands=False)
    if not e2e.note_run(case, obs, sh):
        return
    for suf, idx, rec, row in e2e.each_record(obs):
        if not e2e.valid_record(obs, rec):
            sh.count('skipped-invalid-matching')
            continue
        sh.count('e2e-records')
        if len(rec['aln']) == 1:
            sh.count('one-pair-e2e-records')
        ops = oracles._OPS.findall(rec['hit'])
        if len(ops) > 1 or len(rec['aln']) == 1:
            sh.nt([rec['hit'], rec['aln'], rec['ori']])
        errs = oracles.hitenum(rec['hit'], rec['aln'], rec['ori'])
        if row is not None:
            try:
                cs = row.cigarString
                if cs != rec['hit']:
                    errs.append(('hitenum-column-differs-from-cigarString', 'column %r, row.cigarString %r' % (
                        rec['hit'][:60], cs[:60])))
            except Exception as ex:
                errs.append(('cigarString-raises', repr(ex)))
        for k, t in errs[:1]:
            sh.violation(k, 'file %r query %s %s rest=%s: %s' % (suf, rec['q'], rec['ori'], rec['rest'], t),
                         dict(pipeline.slim_case(case), kind='e2e', focus=e2e.rec_focus(suf, rec)))
        if not errs and len(sh.samples) < 1 and len(ops) > 3:
            sh.sample({'kind': 'e2e record', 'hit': rec['hit'][:100], 'pairs': rec['aln'][:30], 'ori': rec['ori'],
                       'verdict': 'replay reproduces the pairs'})


def gen_e2e(spec, sh):
    for i in range(spec['cases']):
        rng = rng_for('C03e2e', spec['seed'], spec['shard'], i)
        case = gen.pipeline_case(rng, ['clean', 'noisy', 'noisy', 'indel', 'partial', 'chimeric'], param_prob=0.0)
        case['params']['ms'] = rng.choice([300, 400, 500, 1000])
        case['params']['d'] = rng.choice([300, 800, 1500])
        case['kind'] = 'e2e'
        case['gen'] = [spec['seed'], spec['shard'], i]
        core.isolated(judge_e2e, sh, case, spec['workdir'])


def run_shard(spec):
    sh = Shard()
    {'grid': run_grid, 'random': run_random, 'e2e': gen_e2e}[spec['kind']](spec, sh)
    return sh


def replay(case):
    sh = Shard()
    if case.get('kind') == 'pairs':
        judge_pairs([list(p) for p in case['pairs']], case['rev'], case['cuts'], sh, 'replay', tuple(case.get('coin', ())))
    else:
        judge_e2e(case, case['workdir'], sh)
    return [{'key': v['key'], 'what': v['what']} for v in sh.violations]
