"""C04 - Confidence is exactly the configured score of what is reported."""
from vf import core
from vf import e2e, gen, hooks, oracles, pipeline
from vf.core import Shard, rng_for

PROPERTY = 'C04'
RULE = ('end-to-end runs (M-serial) with non-default -sp/-dp/-su/-d/-ms/-bs (pairwise distinct value sets, fractional '
        'and zero -dp, zero -su) on 70 % of runs, all output modes, classes clean/noisy/chimeric/indel/partial; for '
        'every row handed to the XMAP writer (all files) and every candidate on the message bus the confidence is '
        'recomputed from the raw CMAP text, each segment\'s peak position and the parameters the harness put on the '
        'command line: sp - dp*|offset| per pair (offset recomputed from coordinates, must equal the recorded '
        'queryShift and be <= d), su per unpaired label, every label inside a segment span accounted for exactly once; '
        'the sum must equal row.confidence and the Confidence column. Non-trivial = row with >= 2 segments, trimmed, '
        'joined, second-pass or reverse; distinct by content hash.')
ASSUMPTIONS = ['rows whose pairs violate C01 are skipped (counted)', 'confidence tolerance 1e-6 relative, 0.01 on the '
               'two-decimal column']
MINIMUMS = {'rows-judged': {'quick': 1000, 'thorough': 20000}, 'candidates-judged': {'quick': 2000, 'thorough': 40000},
            'multi-segment-rows': {'quick': 50, 'thorough': 500}, 'joined-rows': {'quick': 20, 'thorough': 200},
            'non-default-scoring-runs': {'quick': 60, 'thorough': 1000}}
CLASSES = ['clean', 'noisy', 'noisy', 'chimeric', 'indel', 'partial']


def plan(tier, seed):
    n, c = (16, 18) if tier == 'quick' else (64, 95)
    return [{'name': 'e2e%d' % i, 'kind': 'e2e', 'seed': seed, 'shard': i, 'cases': c} for i in range(n)]


def make_case(rng):
    case = gen.long_molecule_case(rng, nq=rng.randint(6, 12)) if rng.random() < 0.15 else gen.pipeline_case(rng, CLASSES, param_prob=0.0)
    if rng.random() < 0.05:
        gen.add_contig_sized_query(rng, case)
    if rng.random() < 0.04:
        case = gen.far_reference_case(rng)
    P = case['params']
    if rng.random() < 0.7:
        P['sp'] = rng.choice([1000, 800, 1500, 600])
        P['dp'] = rng.choice([1.0, 0.5, 2.0, 0.25, 0.0, 1.5])
        P['su'] = rng.choice([-250, -100, -400, 0, -50])
        P['d'] = rng.choice([300, 800, 1500, 3000])
        P['ms'] = rng.choice([1000, 500, 2000, 300, 1600])
        P['bs'] = rng.choice([1200, 600, 2500, 450])
        P['p'] = rng.choice([1, 3, 6])
        P['sj'] = rng.choice([1.0, 1.0, 0.5, 2.0])
    return case


def judge(case, wd, sh):
    obs = e2e.observe(case, wd, trace=False, cands=True)
    if not e2e.note_run(case, obs, sh):
        return
    P = case['params']
    if any(P[k] != gen.DEFAULTS[k] for k in ('sp', 'dp', 'su', 'd')):
        sh.count('non-default-scoring-runs')
    viol = []
    for suf, idx, rec, row in e2e.each_record(obs):
        if row is None:
            continue
        if oracles.row_pairs(row) != rec['aln'] or not e2e.valid_record(obs, rec):
            sh.count('skipped-invalid-matching')
            continue
        sh.count('rows-judged')
        nseg = len([s for s in row.segments if not s.empty])
        joined = suf == '' and case['mode'] in ('joined', 'all')
        if nseg >= 2:
            sh.count('multi-segment-rows')
        if joined:
            sh.count('joined-rows')
        if nseg >= 2 or joined or rec['rest'] == 'True' or rec['ori'] == '-':
            sh.nt([suf, rec['raw'][1:]])
        errs = oracles.rescore(row, obs.refs, obs.qs, P, rec['conf'])
        for k, t in errs[:2]:
            viol.append(('row:' + k, 'file %r query %s ref %s %s rest=%s (%d segments): %s' % (
                suf, rec['q'], rec['r'], rec['ori'], rec['rest'], nseg, t), e2e.rec_focus(suf, rec)))
        if not errs and nseg >= 2 and len(sh.samples) < 2:
            sh.sample({'file': suf, 'mode': case['mode'], 'params': gen.argv_of(P), 'query': rec['q'],
                       'segments': [{'peak': s.peak.position, 'score': s.segmentScore,
                                     'positions': [hooks.pos_repr(p) for p in s.positions][:12]} for s in row.segments
                                    if not s.empty][:3],
                       'confidence_column': rec['conf'], 'verdict': 'recomputed score equals the confidence'})
    for ps, q, msgs in obs.cands:
        for m in msgs:
            row = m.alignment
            pairs = oracles.row_pairs(row)
            if not pairs:
                continue
            if row.referenceId not in obs.refs or row.queryId not in obs.qs or not oracles.valid_matching(
                    sorted(pairs), '-' if row.reverseStrand else '+'):
                sh.count('skipped-invalid-candidates')
                continue
            sh.count('candidates-judged')
            errs = oracles.rescore(row, obs.refs, obs.qs, P)
            for k, t in errs[:1]:
                viol.append(('candidate:' + k, 'candidate of query %s pass %d on ref %s rev=%s: %s' % (
                    row.queryId, ps, row.referenceId, row.reverseStrand, t), {'query': row.queryId, 'pass': ps}))
    for key, what, focus in viol:
        sh.violation(key, what, dict(pipeline.slim_case(case), kind='e2e', focus=focus))


def run_shard(spec):
    sh = Shard()
    for i in range(spec['cases']):
        rng = rng_for('C04', spec['seed'], spec['shard'], i)
        case = make_case(rng)
        case['kind'] = 'e2e'
        case['gen'] = [spec['seed'], spec['shard'], i]
        core.isolated(judge, sh, case, spec['workdir'])
    if hooks.MONITOR_ERRORS:
        sh.inconclusive.append('monitor errors: %s' % hooks.MONITOR_ERRORS[:3])
    return sh


def replay(case):
    sh = Shard()
    judge(case, case['workdir'], sh)
    return [{'key': v['key'], 'what': v['what']} for v in sh.violations]
