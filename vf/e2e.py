"""Shared end-to-end observation: one generated case is run through the real pipeline (M-serial) with the
monitors attached, and everything the file-, writer-, message- and function-boundary oracles need is collected."""
import contextlib

from vf import core, hooks, pipeline, text, oracles


class Obs:
    def __init__(self):
        self.case = None
        self.run = None
        self.refs = None          # {id: (end marker, positions)} parsed from the CMAP text
        self.qs = None
        self.records = {}         # suffix -> list of record dicts parsed from the XMAP text
        self.format_error = {}    # suffix -> text
        self.cands = []           # (pass number, query map, [AlignmentResultRowMessage])
        self.trace = None         # hooks.ResolverTrace


def observe(case, wd, tag='x', serial=True, cpus=1, trace=True, cands=True, extra_ctx=(), stdout_output=False):
    obs = Obs()
    obs.case = case
    st = contextlib.ExitStack()
    exts = []
    with st:
        if trace:
            obs.trace = hooks.ResolverTrace()
            st.enter_context(obs.trace.install())
        if cands:
            pc = hooks.PassCounter()
            st.enter_context(pc.install())
            exts.append(hooks.candidates_extension(pc, obs.cands))
        for c in extra_ctx:
            st.enter_context(c)
        obs.run = pipeline.run_inprocess(case, wd, tag, serial=serial, cpus=cpus, extensions=exts,
                                         stdout_output=stdout_output)
    obs.refs, obs.qs = pipeline.parsed_inputs(case)
    for suf, txt in obs.run.files.items():
        try:
            _, obs.records[suf] = text.parse_xmap(txt)
        except text.XmapFormatError as ex:
            obs.format_error[suf] = str(ex)
            obs.records[suf] = []
    return obs


def rec_focus(suf, rec):
    return {'file': suf, 'query': rec['q'], 'ref': rec['r'], 'ori': rec['ori'], 'rest': rec['rest'],
            'conf': rec['conf'], 'hit': rec['hit'][:120], 'aln': rec['aln'][:80]}


def row_for_record(obs, suf, idx):
    rows = obs.run.rows.get(suf)
    if rows is None or idx >= len(rows):
        return None
    return rows[idx]


def attribute_row(obs, row):
    """Known-finding attribution of a violating row: the resolver record of the Aligner.align call that produced it
    (M-serial keeps object identity from the aligner to the writer). Joined rows are attributed to their parts."""
    tr = obs.trace
    if tr is None or row is None:
        return []
    hit = tr.row_records.get(id(row))
    if hit is not None and hit[0] is row:
        return [k for k, _, _ in hooks.classify_resolver_conflicts(hit[1], rev=row.reverseStrand)]
    keys = []
    # joined row: its segments derive from segments of rows of the same query returned by Aligner.align
    for other, rec in tr.row_records.values():
        if other.queryId == row.queryId and other.referenceId == row.referenceId and \
                other.reverseStrand == row.reverseStrand:
            keys += [k for k, _, _ in hooks.classify_resolver_conflicts(rec, rev=row.reverseStrand)]
    return keys


def each_record(obs):
    for suf, recs in obs.records.items():
        rows = obs.run.rows.get(suf)
        for idx, rec in enumerate(recs):
            yield suf, idx, rec, (rows[idx] if rows is not None and idx < len(rows) else None)


def valid_record(obs, rec):
    """C01 holds for this record (field / encoding / score semantics of an invalid matching are undefined)."""
    if rec['r'] not in obs.refs or rec['q'] not in obs.qs:
        return False
    return not oracles.matching(rec['aln'], rec['ori'], len(obs.refs[rec['r']][1]), len(obs.qs[rec['q']][1]))


def note_run(case, obs, sh):
    sh.evaluations += 1
    sh.count('runs')
    sh.count('mode:' + case['mode'])
    for c in case.get('qclass', {}).values():
        sh.count('class:' + c)
    if obs.run.error:
        sh.count('aborted-runs')
        sh.count('abort:%s@%s' % (obs.run.error['type'], obs.run.error['frame']))
        return False
    return True


def campaign(tag, spec, sh, judge, classes, pool_first=0, long_share=0.15, **gen_kw):
    """Generic e2e shard: cases 0..n-1 of (seed, shard), each judged by judge(case, workdir, sh)."""
    from vf import gen
    from vf.core import rng_for
    for i in range(spec['cases']):
        rng = rng_for(tag, spec['seed'], spec['shard'], i)
        if rng.random() < 0.12:
            case = gen.translocation_case(rng)
        elif rng.random() < long_share:
            case = gen.long_molecule_case(rng, nq=rng.randint(6, 12))
            if rng.random() < 0.4:
                case['params'].update(d=rng.choice([800, 3000]), ms=rng.choice([500, 1000, 2000]))
        else:
            case = gen.pipeline_case(rng, classes, **gen_kw)
        case['kind'] = 'e2e'
        case['gen'] = [spec['seed'], spec['shard'], i]
        core.isolated(judge, sh, case, spec['workdir'])
    if hooks.MONITOR_ERRORS:
        sh.inconclusive.append('monitor errors: %s' % hooks.MONITOR_ERRORS[:3])
    return sh
