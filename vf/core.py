"""Core of the runtime-monitoring harness: tiers/seeds, shard runner, verdicts, evidence.

A *check* (vf/checks/cNN.py) provides
    PROPERTY      property id
    RULE          text: how cases are generated, what makes one non-trivial / distinct
    ASSUMPTIONS   list of strings
    MINIMUMS      {counter name: minimum} - below it the verdict is INCONCLUSIVE
    plan(tier, seed) -> list of shard specs (JSON-able dicts)
    run_shard(spec)  -> Shard (see below), executed in a fresh subprocess
    replay(case)     -> list of Violation dicts (re-executes one recorded case)
    fixed_cases()/known_cases() are handled through vf.known
"""
import hashlib
import importlib
import json
import os
import random
import shutil
import subprocess
import sys
import tempfile
import time
import traceback
from concurrent.futures import ThreadPoolExecutor

VERIF = os.path.dirname(os.path.dirname(os.path.abspath(__file__)))


def h64_str(s):
    return hashlib.blake2b(s.encode(), digest_size=6).hexdigest()


REPO = os.environ.get('COMA_REPO', '/repo')
PY = os.environ.get('COMA_PY', '/venv/bin/python')
# evidence and replay witnesses of runs against a scratch tree (COMA_REPO set) are not evidence for /repo
OUT_BASE = os.environ.get('VF_OUT_BASE') or (VERIF if REPO == '/repo' else os.path.join(tempfile.gettempdir(), 'vf_scratch_' + h64_str(REPO)))


def use_repo():
    """Make `import src...` resolve to the tree under test (default /repo's working tree)."""
    for p in (os.path.join(REPO, 'sv'), REPO):
        if p in sys.path:
            sys.path.remove(p)
        sys.path.insert(0, p)


def h64(obj) -> str:
    return hashlib.blake2b(json.dumps(obj, sort_keys=True, default=str).encode(), digest_size=8).hexdigest()


def rng_for(*parts) -> random.Random:
    return random.Random(int(hashlib.blake2b(repr(parts).encode(), digest_size=8).hexdigest(), 16))


class Shard:
    """What one shard observed."""

    def __init__(self):
        self.evaluations = 0
        self.nontrivial = set()        # hashes of distinct non-trivial cases
        self.nontrivial_enum = 0       # non-trivial cases that are distinct by construction (enumerations)
        self.counters = {}
        self.samples = []
        self.violations = []           # {'key': mechanism, 'what': text, 'case': replayable case}
        self.inconclusive = []
        self.exhaustive = None
        self.space = 0

    def count(self, name, n=1):
        self.counters[name] = self.counters.get(name, 0) + n

    def nt(self, obj):
        self.nontrivial.add(h64(obj))

    def sample(self, obj, limit=3):
        if len(self.samples) < limit:
            self.samples.append(obj)

    def violation(self, key, what, case, limit_per_key=3):
        n = sum(1 for v in self.violations if v['key'] == key)
        self.count('violation:' + key)
        if n < limit_per_key:
            self.violations.append({'key': key, 'what': what, 'case': case})

    def merge(self, r):
        """Add what another shard (as JSON dict) observed."""
        self.evaluations += r['evaluations']
        self.nontrivial.update(r['nontrivial'])
        self.nontrivial_enum += r.get('nontrivial_enum', 0)
        for k, v in r['counters'].items():
            self.count(k, v)
        for x in r['samples']:
            self.sample(x)
        for v in r['violations']:
            if sum(1 for w in self.violations if w['key'] == v['key']) < 3:
                self.violations.append(v)
        self.inconclusive.extend(r['inconclusive'])
        self.space += r.get('space', 0)

    def to_json(self):
        return {'evaluations': self.evaluations, 'nontrivial': sorted(self.nontrivial),
                'nontrivial_enum': self.nontrivial_enum, 'counters': self.counters, 'samples': self.samples,
                'violations': self.violations, 'inconclusive': self.inconclusive,
                'exhaustive': self.exhaustive, 'space': self.space}


def isolated(fn, sh, *args, timeout=1200):
    """Run fn(*args, child_shard) in a forked child so that module-level state of the code under test (caches, counters)
    cannot leak from one case to the next - every real COMA run is a fresh process. The child's observations are merged
    into sh. A child that dies or hangs makes the case inconclusive."""
    import pickle
    import select
    import signal
    r, w = os.pipe()
    pid = os.fork()
    if pid == 0:
        code = 0
        try:
            os.close(r)
            child = Shard()
            try:
                fn(*args, child)
            except BaseException:
                child.inconclusive.append('harness error in isolated case: %s' % traceback.format_exc()[-1200:])
            hk = sys.modules.get('vf.hooks')
            if hk is not None and hk.MONITOR_ERRORS:
                child.inconclusive.append('monitor errors: %s' % hk.MONITOR_ERRORS[:3])
            data = json.dumps(child.to_json(), default=str).encode()
            with os.fdopen(w, 'wb') as f:
                f.write(data)
        except BaseException:
            code = 1
        finally:
            os._exit(code)
    os.close(w)
    chunks = []
    deadline = time.time() + timeout
    with os.fdopen(r, 'rb') as f:
        while True:
            left = deadline - time.time()
            if left <= 0:
                os.kill(pid, signal.SIGKILL)
                sh.inconclusive.append('isolated case exceeded the %ss watchdog' % timeout)
                break
            ready, _, _ = select.select([f], [], [], min(left, 5))
            if ready:
                b = f.read1(1 << 20) if hasattr(f, 'read1') else f.read(1 << 20)
                if not b:
                    break
                chunks.append(b)
    os.waitpid(pid, 0)
    try:
        sh.merge(json.loads(b''.join(chunks).decode()))
    except Exception:
        sh.inconclusive.append('isolated case died without a result')


def load_check(pid):
    use_repo()
    return importlib.import_module('vf.checks.' + pid.lower())


def shard_main(argv):
    """Entry of a shard subprocess: argv = [property id, spec file, result file]."""
    pid, spec_file, out_file = argv
    spec = json.load(open(spec_file))
    os.environ.setdefault('PYTHONHASHSEED', '0')
    try:
        mod = load_check(pid)
        if 'committed' in spec:
            from vf import known
            sh = known.run_committed(mod, spec)
        else:
            sh = mod.run_shard(spec)
    except BaseException:
        sh = Shard()
        sh.inconclusive.append('harness error in shard %s: %s' % (spec.get('name'), traceback.format_exc()[-1500:]))
    with open(out_file, 'w') as f:
        json.dump(sh.to_json(), f, default=str)


CHILDREN = []
TMPDIRS = []


def kill_tree(proc):
    """Shards run in their own session: kill the whole group (the shard, its forked cases, COMA's pool workers)."""
    import signal
    try:
        os.killpg(proc.pid, signal.SIGKILL)
    except Exception:
        pass
    try:
        proc.kill()
        proc.communicate(timeout=10)
    except Exception:
        pass


def on_terminate(signum, frame):
    for p in list(CHILDREN):
        kill_tree(p)
    for d in TMPDIRS:
        shutil.rmtree(d, ignore_errors=True)
    os._exit(128 + signum)


def _run_one(pid, spec, tmp, timeout):
    name = spec.get('name', h64(spec))
    sf = os.path.join(tmp, name + '.spec.json')
    of = os.path.join(tmp, name + '.out.json')
    wd = os.path.join(tmp, name + '.wd')
    os.makedirs(wd, exist_ok=True)
    spec = dict(spec, workdir=wd)
    json.dump(spec, open(sf, 'w'))
    env = dict(os.environ, PYTHONHASHSEED='0', PYTHONPATH=VERIF, COMA_REPO=REPO, COMA_VERIF='1',
               OMP_NUM_THREADS='1', OPENBLAS_NUM_THREADS='1', MKL_NUM_THREADS='1')
    t = time.time()
    proc = subprocess.Popen([PY, '-X', 'faulthandler', '-m', 'vf.shard', pid, sf, of], cwd=VERIF, env=env,
                            stdout=subprocess.PIPE, stderr=subprocess.STDOUT, start_new_session=True)
    CHILDREN.append(proc)
    try:
        out = proc.communicate(timeout=timeout)[0].decode(errors='replace')
        if os.path.exists(of):
            r = json.load(open(of))
        else:
            r = Shard().to_json()
            r['inconclusive'].append('shard %s died (exit %s): %s' % (name, proc.returncode, out[-1500:]))
    except subprocess.TimeoutExpired:
        kill_tree(proc)
        r = Shard().to_json()
        r['inconclusive'].append('shard %s hit the %ss wall-clock watchdog' % (name, timeout))
    finally:
        if proc in CHILDREN:
            CHILDREN.remove(proc)
    r['wall'] = time.time() - t
    r['name'] = name
    shutil.rmtree(wd, ignore_errors=True)
    return r


def run_check(pid, tier, seed, jobs=None):
    """Run all shards of a check, aggregate, write evidence, print verdict lines; returns exit status."""
    from vf import known
    t0 = time.time()
    mod = load_check(pid)
    specs = list(mod.plan(tier, seed))
    committed = known.committed_spec(pid)
    if committed:
        specs.append(committed)
    jobs = jobs or int(os.environ.get('VERIF_JOBS', '16'))
    timeout = int(os.environ.get('VERIF_SHARD_TIMEOUT', '1500' if tier == 'quick' else '5400'))
    tmp = tempfile.mkdtemp(prefix='vf_%s_' % pid)
    TMPDIRS.append(tmp)
    try:
        with ThreadPoolExecutor(max_workers=jobs) as ex:
            results = list(ex.map(lambda s: _run_one(pid, s, tmp, timeout), specs))
    finally:
        shutil.rmtree(tmp, ignore_errors=True)

    agg = Shard()
    enum_nt = 0
    exhaustive_flags = []
    for r in results:
        agg.evaluations += r['evaluations']
        agg.nontrivial.update(r['nontrivial'])
        enum_nt += r.get('nontrivial_enum', 0)
        for k, v in r['counters'].items():
            agg.count(k, v)
        for s in r['samples']:
            agg.sample(s, limit=6)
        agg.violations.extend(r['violations'])
        agg.inconclusive.extend(r['inconclusive'])
        if r.get('exhaustive') is not None:
            exhaustive_flags.append(bool(r['exhaustive']))
        agg.space += r.get('space', 0)

    mins = getattr(mod, 'MINIMUMS', {})
    for name, m in mins.items():
        m = m[tier] if isinstance(m, dict) else m
        if agg.counters.get(name, 0) < m:
            agg.inconclusive.append('monitor counter %s=%d is below its minimum %d (deciding monitor not reached)'
                                    % (name, agg.counters.get(name, 0), m))

    if agg.counters.get('aborted-runs', 0) and pid != 'C07':
        aborts = sorted(k for k in agg.counters if k.startswith('abort:'))
        agg.inconclusive.append('%d end-to-end run(s) aborted, so their records could not be observed (%s); aborts are C07\'s subject'
                                % (agg.counters['aborted-runs'], ', '.join(aborts)[:300]))

    # ---- verdict: a violation whose mechanism key is a listed finding is a KNOWN-FINDING, anything else is new
    listed = known.listed_findings(pid)
    lines = []
    new_viol = [v for v in agg.violations if v['key'] not in listed]
    known_keys = {}
    for k, n in agg.counters.items():
        if k.startswith('violation:') and k[10:] in listed:
            known_keys[k[10:]] = n
    for k in sorted(known_keys):
        still = agg.counters.get('repro-still-fails:' + k, 0) > 0
        lines.append('KNOWN-FINDING: property=%s key=%s %s [committed reproducer %s; %d instance(s) met in this run]'
                     % (pid, k, listed[k]['what'], 'still fails' if still else 'did not fail', known_keys[k]))
    status = 0
    seen_keys = set()
    rdir = os.path.join(OUT_BASE, 'replay', pid)
    if new_viol:
        status = 1
        os.makedirs(rdir, exist_ok=True)
        for v in new_viol:
            if v['key'] in seen_keys:
                continue
            seen_keys.add(v['key'])
            path = os.path.join(rdir, '%s-%s.json' % (_slug(v['key']), h64(v['case'])))
            json.dump({'property': pid, 'key': v['key'], 'what': v['what'], 'tier': tier, 'seed': seed,
                       'case': v['case']}, open(path, 'w'), indent=1, default=str)
            lines.append('VIOLATION property=%s replay=%s' % (pid, path))
            lines.append('  mechanism=%s count=%d :: %s' % (v['key'], agg.counters.get('violation:' + v['key'], 1),
                                                            str(v['what'])[:600]))
    elif agg.inconclusive:
        status = 2
        for r in agg.inconclusive[:5]:
            lines.append('INCONCLUSIVE property=%s reason=%s' % (pid, r.replace('\n', ' | ')[:800]))

    distinct = len(agg.nontrivial) + enum_nt
    coverage = {
        'evaluations': agg.evaluations,
        'distinct_nontrivial': distinct,
        'rule': mod.RULE,
        'samples': agg.samples or [{'note': 'no sample recorded'}],
        'counters': dict(sorted(agg.counters.items())),
        'shards': len(specs),
        'known_findings_met': known_keys,
        'inconclusive_reasons': agg.inconclusive[:10],
        'verdict': {0: 'held on what was observed', 1: 'violated', 2: 'inconclusive'}[status],
    }
    if exhaustive_flags:
        coverage['exhaustive'] = all(exhaustive_flags)
        coverage['enumerated_space'] = agg.space
    ev = {'property_id': pid, 'tier': tier, 'seed': seed, 'level': 'exploration', 'coverage': coverage,
          'assumptions': list(getattr(mod, 'ASSUMPTIONS', [])) + [
              'tree under test: %s (imported fresh in every shard subprocess)' % REPO],
          'wall_s': round(time.time() - t0, 2), 'violations': len(new_viol)}
    os.makedirs(os.path.join(OUT_BASE, 'evidence'), exist_ok=True)
    with open(os.path.join(OUT_BASE, 'evidence', pid + '.json'), 'w') as f:
        json.dump(ev, f, indent=1, default=str)
    for ln in lines:
        print(ln)
    print('%s tier=%s seed=%d: %s; evaluations=%d distinct_nontrivial=%d wall=%.1fs'
          % (pid, tier, seed, coverage['verdict'], agg.evaluations, distinct, time.time() - t0))
    interesting = {k: v for k, v in agg.counters.items() if not k.startswith('class:')}
    print('  counters: ' + json.dumps(dict(sorted(interesting.items())))[:3000])
    return status


def _slug(s):
    return ''.join(c if c.isalnum() else '-' for c in s)[:60]


def run_replay(pid, path):
    mod = load_check(pid)
    w = json.load(open(path))
    case = w['case'] if 'case' in w else w
    wd = tempfile.mkdtemp(prefix='vf_replay_')
    try:
        case = dict(case, workdir=wd)
        viol = mod.replay(case)
    finally:
        shutil.rmtree(wd, ignore_errors=True)
    if viol:
        for v in viol:
            print('VIOLATION property=%s replay=%s' % (pid, os.path.abspath(path)))
            print('  mechanism=%s :: %s' % (v['key'], str(v['what'])[:1500]))
        return 1
    print('%s replay of %s: no violation on the current tree' % (pid, path))
    return 0
