"""Three ways of running COMA on a generated case, and collection of what it wrote.

M-cli    the real entry point in a subprocess (python -m src.program, cwd = tree under test)
M-pool   Program(Args.parse(argv)).run() in this process with the repository's own p_imap (forked workers)
M-serial the same with src.workflow_coordinator.p_imap replaced by an ordered serial map, so that all
         function-boundary monitors live in one process
"""
import contextlib
import io
import os
import subprocess
import sys
import traceback

from vf import core, text
from vf.gen import argv_of


def write_inputs(case, wd, tag='x'):
    rp = os.path.join(wd, tag + '_r.cmap')
    qp = os.path.join(wd, tag + '_q.cmap')
    with open(rp, 'w') as f:
        f.write(case.get('ref_text') or text.cmap_text([tuple(m) for m in case['refs']]))
    with open(qp, 'w') as f:
        f.write(case.get('query_text') or text.cmap_text([tuple(m) for m in case['queries']]))
    return rp, qp


def build_argv(case, rp, qp, op, cpus=1):
    argv = ['-r', rp, '-q', qp, '-pb', '-c', str(cpus), '-oM', case['mode']]
    if op is not None:
        argv += ['-o', op]
    argv += argv_of(case['params']) + list(case.get('extra_argv', []))
    return argv


class Run:
    def __init__(self):
        self.files = {}        # suffix ('', '_1', '_2') -> text
        self.rows = {}         # suffix -> list of row objects handed to the writer (in-process modes)
        self.error = None      # None or {'type','msg','frame','tb'}
        self.result = None
        self.stdout = None
        self.stderr = None
        self.returncode = None
        self.argv = None


def _collect(run, op):
    base, ext = os.path.splitext(op)
    for suf in ('', '_1', '_2'):
        fn = base + suf + ext
        if os.path.exists(fn):
            with open(fn) as f:
                run.files[suf] = f.read()


def _clean(op):
    base, ext = os.path.splitext(op)
    for suf in ('', '_1', '_2'):
        fn = base + suf + ext
        if os.path.exists(fn):
            os.remove(fn)


def error_info(ex):
    tb = traceback.extract_tb(ex.__traceback__)
    repo_frames = [f for f in tb if f.filename.startswith(core.REPO + os.sep)]
    fr = repo_frames[-1] if repo_frames else (tb[-1] if tb else None)
    return {'type': type(ex).__name__, 'msg': str(ex)[:200],
            'frame': '%s:%s' % (os.path.relpath(fr.filename, core.REPO), fr.name) if fr else '?',
            'line': fr.lineno if fr else None,
            'tb': ''.join(traceback.format_exception(type(ex), ex, ex.__traceback__))[-2500:]}


def serial_imap(f, items, **kw):
    """Ordered serial stand-in for p_tqdm.p_imap with the pool's state semantics: the pool pickles the mapped callable
    (a lambda closing over the coordinator) for every task, so each task starts from a pristine copy of the coordinator /
    aligner / engine objects, while module-level state of a worker process survives from task to task. Mapping the
    shared callable directly would invert both (object state would leak, e.g. AlignerEngine.iteration)."""
    import dill
    blob = dill.dumps(f)
    for it in items:
        yield dill.loads(blob)(it)


def serial_uimap(f, items, **kw):
    """Stand-in for the UNORDERED pool maps (p_uimap/p_umap): results in reversed submission order, one of the completion
    orders the pool may legally produce."""
    return iter(list(serial_imap(f, items))[::-1])


def patch_pool_maps(st, wc):
    """Replace whichever p_tqdm pool map the coordinator module uses (by identity, under any local name; or through the
    p_tqdm module itself when it is used as `p_tqdm.p_imap`), so that a renamed or re-imported but equivalent map is not
    mistaken for an abort of the code under test."""
    import p_tqdm
    ordered = {getattr(p_tqdm, n): (lambda f, items, **kw: list(serial_imap(f, items))) if n == 'p_map' else serial_imap
               for n in ('p_imap', 'p_map') if hasattr(p_tqdm, n)}
    unordered = {getattr(p_tqdm, n): (lambda f, items, **kw: list(serial_uimap(f, items))) if n == 'p_umap' else serial_uimap
                 for n in ('p_uimap', 'p_umap') if hasattr(p_tqdm, n)}
    found = 0
    for name, val in list(vars(wc).items()):
        try:
            rep = ordered.get(val) or unordered.get(val)
        except TypeError:
            continue
        if rep is not None:
            st.enter_context(patched(wc, name, rep))
            found += 1
    if not found:
        for fn, rep in list(ordered.items()) + list(unordered.items()):
            st.enter_context(patched(p_tqdm, fn.__name__, rep))
    return found


@contextlib.contextmanager
def patched(obj, name, new):
    old = getattr(obj, name)
    setattr(obj, name, new)
    try:
        yield old
    finally:
        setattr(obj, name, old)


def run_inprocess(case, wd, tag='x', serial=True, cpus=1, extensions=None, stdout_output=False):
    """M-serial (serial=True) or M-pool. Returns Run with files, writer rows, error."""
    core.use_repo()
    from src.args import Args
    from src.program import Program
    import src.workflow_coordinator as wc
    import src.parsers.xmap_reader as xr

    rp, qp = write_inputs(case, wd, tag)
    op = os.path.join(wd, tag + '_o.xmap')
    _clean(op)
    run = Run()
    run.argv = build_argv(case, rp, qp, None if stdout_output else op, cpus)
    orig_write = xr.XmapReader.writeAlignments

    def mon_write(self, file, results, args):
        name = getattr(file, 'name', '<stdout>')
        base = os.path.splitext(os.path.basename(str(name)))[0]
        suf = '_1' if base.endswith('_1') else '_2' if base.endswith('_2') else ''
        run.rows[suf] = list(results.rows)
        return orig_write(self, file, results, args)

    buf = io.StringIO()
    try:
        with contextlib.ExitStack() as st:
            st.enter_context(patched(xr.XmapReader, 'writeAlignments', mon_write))
            if serial:
                patch_pool_maps(st, wc)
            if stdout_output:
                st.enter_context(patched(sys, 'stdout', buf))
            args = Args.parse(run.argv)
            try:
                run.result = Program(args, list(extensions or [])).run()
            finally:
                for f in (args.referenceFile, args.queryFile, args.outputFile):
                    try:
                        if f is not None and f is not buf and f is not sys.__stdout__ and not f.closed:
                            f.close()
                    except Exception:
                        pass
    except BaseException as ex:  # SystemExit from argparse included: the harness never passes invalid options
        run.error = error_info(ex)
    if stdout_output:
        run.files[''] = buf.getvalue()
        run.stdout = buf.getvalue()
    else:
        _collect(run, op)
    return run


def run_forked(case, wd, tag='x', **kw):
    """M-serial in a forked child: module-level state of the code under test cannot leak between the runs that a
    metamorphic / differential check compares (every real run is a fresh process). Returns files and error only."""
    import json as _json
    from vf.core import Shard, isolated
    sh = Shard()

    def child_fn(child):
        run = run_inprocess(case, wd, tag, **kw)
        child.samples.append({'files': run.files, 'error': run.error, 'argv': run.argv})
    isolated(child_fn, sh)
    run = Run()
    if sh.samples:
        d = sh.samples[0]
        run.files, run.error, run.argv = d['files'], d['error'], d['argv']
    else:
        run.error = {'type': 'HarnessChildDied', 'msg': '; '.join(sh.inconclusive)[:300], 'frame': '?', 'tb': ''}
    return run


def run_cli(case, wd, tag='c', cpus=1, env=None, launcher=None, timeout=600, stdout_output=False, console_script=False,
            in_tag=None):
    """M-cli: the real entry point in a subprocess. in_tag: reuse input files written under that tag."""
    if in_tag and os.path.exists(os.path.join(wd, in_tag + '_r.cmap')):
        rp, qp = os.path.join(wd, in_tag + '_r.cmap'), os.path.join(wd, in_tag + '_q.cmap')
    else:
        rp, qp = write_inputs(case, wd, in_tag or tag)
    op = os.path.join(wd, tag + '_o.xmap')
    _clean(op)
    run = Run()
    run.argv = build_argv(case, rp, qp, None if stdout_output else op, cpus)
    e = dict(os.environ)
    e.update({'PYTHONPATH': core.REPO + os.pathsep + core.VERIF, 'OMP_NUM_THREADS': '1',
              'OPENBLAS_NUM_THREADS': '1'})
    e.pop('PYTHONHASHSEED', None)
    e.update(env or {})
    if launcher:
        cmd = [core.PY, '-X', 'faulthandler'] + launcher + run.argv
    elif console_script and core.REPO == '/repo':
        cmd = ['/venv/bin/coma'] + run.argv
    else:
        cmd = [core.PY, '-X', 'faulthandler', '-m', 'src.program'] + run.argv
    try:
        p = subprocess.run(cmd, cwd=core.REPO, env=e, stdout=subprocess.PIPE, stderr=subprocess.PIPE, timeout=timeout)
        run.returncode = p.returncode
        run.stdout = p.stdout.decode(errors='replace')
        run.stderr = p.stderr.decode(errors='replace')
        if p.returncode != 0 or 'Traceback (most recent call last)' in run.stderr or 'Fatal Python error' in run.stderr:
            last = [ln for ln in run.stderr.strip().split('\n') if ln.strip()][-1:] or ['']
            frames = [ln.strip() for ln in run.stderr.split('\n') if 'File "' + core.REPO in ln]
            fr = frames[-1] if frames else '?'
            import re
            m = re.search(r'File "%s/([^"]+)", line (\d+), in (\S+)' % re.escape(core.REPO), fr)
            run.error = {'type': last[0].split(':')[0][:60], 'msg': last[0][:200],
                         'frame': '%s:%s' % (m.group(1), m.group(3)) if m else '?',
                         'line': int(m.group(2)) if m else None, 'tb': run.stderr[-2500:], 'exit': p.returncode}
    except subprocess.TimeoutExpired:
        run.error = {'type': 'HarnessTimeout', 'msg': 'watchdog %ss' % timeout, 'frame': '?', 'tb': ''}
    if stdout_output:
        run.files[''] = run.stdout or ''
    else:
        _collect(run, op)
    return run


def expected_suffixes(mode):
    return {'best': [''], 'separate': ['', '_1'], 'joined': ['', '_1'], 'all': ['', '_1', '_2']}[mode]


def parsed_inputs(case):
    """Independent view of the inputs: {id: (int length, positions)} for refs and queries, from the CMAP text."""
    rt = case.get('ref_text') or text.cmap_text([tuple(m) for m in case['refs']])
    qt = case.get('query_text') or text.cmap_text([tuple(m) for m in case['queries']])
    refs = {i: v for i, v in text.parse_cmap(rt).items() if v[1]}
    qs = {i: v for i, v in text.parse_cmap(qt).items() if v[1]}
    return refs, qs


def slim_case(case):
    """A replayable, explicit copy of a pipeline case (no work directory, no derived state)."""
    keep = ('refs', 'queries', 'ref_text', 'query_text', 'params', 'mode', 'extra_argv', 'qclass', 'truth', 'kind',
            'gen', 'focus', 'decisions', 'ordinary', 'flavour', 'special', 'mm_seed', 'sched_seed', 'mirror_pairs', 'pool')
    return {k: case[k] for k in keep if k in case}
