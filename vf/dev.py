"""Developer helper: run one shard spec of a check in-process and print what it found.
usage: python -m vf.dev C01 '{"kind":"direct","seed":0,"shard":0,"cases":500}' [--dump DIR]"""
import json
import os
import sys
import tempfile

from vf import core


def main():
    pid, spec = sys.argv[1], json.loads(sys.argv[2])
    mod = core.load_check(pid)
    spec.setdefault('workdir', tempfile.mkdtemp(prefix='vf_dev_'))
    spec.setdefault('name', 'dev')
    sh = mod.run_shard(spec)
    print(json.dumps(sh.counters, indent=0, sort_keys=True))
    print('evaluations', sh.evaluations, 'nontrivial', len(sh.nontrivial) + sh.nontrivial_enum)
    for v in sh.violations:
        print('VIOL', v['key'], '::', v['what'][:400])
    for r in sh.inconclusive:
        print('INCONCLUSIVE', r[:600])
    if '--dump' in sys.argv:
        d = sys.argv[sys.argv.index('--dump') + 1]
        os.makedirs(d, exist_ok=True)
        seen = set()
        for v in sh.violations:
            if v['key'] in seen:
                continue
            seen.add(v['key'])
            c = dict(v['case'])
            c.pop('workdir', None)
            fn = os.path.join(d, core._slug(v['key']) + '.json')
            json.dump({'property': pid, 'key': v['key'], 'what': v['what'], 'case': c}, open(fn, 'w'), indent=1)
            print('dumped', fn)


if __name__ == '__main__':
    main()
