"""CLI-equivalent launcher for C09: the same Program(Args.parse(argv), extensions).run() as src.program.main(), plus two
Extensions that run INSIDE the worker processes: a seeded sleep at InitialAlignmentMessage (an existing dispatch point
between work items) to perturb completion order, and a completion log."""
import os
import random
import sys
import time


def main():
    repo = os.environ.get('COMA_REPO', '/repo')
    sys.path.insert(0, repo)
    from src.args import Args
    from src.program import Program
    from src.extensions.extension import Extension
    from src.extensions.messages import InitialAlignmentMessage, MultipleAlignmentResultRowsMessage

    class Jitter(Extension):
        messageType = InitialAlignmentMessage

        def __init__(self, seed, maxms):
            self.seed, self.maxms = seed, maxms

        def handle(self, m):
            d = m.data
            r = random.Random('%s/%s/%s/%s/%s' % (self.seed, d.query.moleculeId, d.query.shift, d.reference.moleculeId, d.reverseStrand))
            time.sleep(r.random() * self.maxms / 1000.0)

    class Done(Extension):
        messageType = MultipleAlignmentResultRowsMessage

        def __init__(self, path):
            self.path = path

        def handle(self, m):
            q = m.messages[0].query
            with open(self.path, 'a') as f:
                f.write('%d %d %s %s %d\n' % (time.monotonic_ns(), os.getpid(), q.moleculeId, q.shift, len(q.positions)))

    log = os.environ['VF_LOG']
    seed = os.environ.get('VF_JSEED', '0')
    maxms = float(os.environ.get('VF_JMAX', '40'))
    Program(Args.parse(sys.argv[1:]), [Jitter(seed, maxms), Done(log)]).run()


if __name__ == '__main__':
    main()
