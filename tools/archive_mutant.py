#!/usr/bin/env python3
"""Confirm a seeded change in its scratch worktree and archive it under /verif/seeded/<name>/.
usage: tools/archive_mutant.py <name e.g. C02a> <mutant dir> <worktree> <own check id> [extra check ids,comma separated]"""
import json
import os
import shutil
import subprocess
import sys

V = os.path.dirname(os.path.dirname(os.path.abspath(__file__)))


def main():
    name, mdir, wt, own = sys.argv[1:5]
    extra = sys.argv[5].split(',') if len(sys.argv) > 5 and sys.argv[5] else []
    checks = [own] + [c for c in extra if c != own]
    p = subprocess.run([sys.executable, os.path.join(V, 'tools', 'try_mutant.py'), mdir, wt, '--confirm', '--checks', ','.join(checks)],
                       stdout=subprocess.PIPE, stderr=subprocess.STDOUT)
    out = p.stdout.decode()
    try:
        res = json.loads(out[out.index('{'):])
    except Exception:
        print(name, 'FAILED', out[-500:])
        return 1
    ok = res.get('demo_clean_rc') == 0 and res.get('tests_rc') == 0 and res.get('demo_patched_rc') not in (0, None)
    agent_meta = {}
    try:
        agent_meta = json.load(open(os.path.join(mdir, 'meta.json')))
    except Exception:
        pass
    head = subprocess.run(['git', '-C', '/repo', 'rev-parse', '--short', 'HEAD'], stdout=subprocess.PIPE).stdout.decode().strip()
    caught = {c: (res[c]['rc'] == 1) for c in checks if c in res}
    meta = {
        'name': name, 'property': own,
        'summary': agent_meta.get('summary'), 'needs_to_manifest': agent_meta.get('needs'), 'files': agent_meta.get('files'),
        'origin': 'written by an independent sub-agent that saw only the property text and a scratch worktree',
        'confirmed': {'at_repo_commit': head, 'in': 'scratch worktree %s (patch applied with git apply, reverted afterwards)' % wt,
                      'existing_tests_with_patch': res.get('tests_tail'), 'demo_on_clean_tree_exit': res.get('demo_clean_rc'),
                      'demo_on_patched_tree_exit': res.get('demo_patched_rc'), 'demo_patched_output_tail': res.get('demo_patched_tail')},
        'kept': ok,
        'checks_run': {c: {'exit': res[c]['rc'], 'wall_s': res[c]['wall'], 'caught': caught[c], 'lines': res[c]['lines'][:4]} for c in checks if c in res},
        'commands': ['tools/try_mutant.py %s %s --confirm --checks %s   (COMA_REPO=<worktree> ./check <id> --tier quick)' % (mdir, wt, ','.join(checks))],
    }
    if ok:
        d = os.path.join(V, 'seeded', name)
        os.makedirs(d, exist_ok=True)
        shutil.copy(os.path.join(mdir, 'patch.diff'), os.path.join(d, 'patch.diff'))
        shutil.copy(os.path.join(mdir, 'demo.py'), os.path.join(d, 'demo.py'))
        json.dump(meta, open(os.path.join(d, 'meta.json'), 'w'), indent=1)
    print(name, 'kept' if ok else 'NOT-CONFIRMED', 'caught:', caught, '| tests', res.get('tests_tail'), '| demo clean/patched', res.get('demo_clean_rc'), res.get('demo_patched_rc'))
    return 0


if __name__ == '__main__':
    sys.exit(main())
