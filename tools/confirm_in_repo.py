#!/usr/bin/env python3
"""Final confirmation of seeded changes the way the brief prescribes: apply the patch to /repo itself
(git -C /repo apply), run the property's quick check against /repo, undo it straight afterwards
(git -C /repo checkout -- .). Evidence / witnesses of these runs go to $VF_OUT_BASE, not to /verif/evidence.
Nothing else may use /repo while this runs.   usage: tools/confirm_in_repo.py [name ...]"""
import glob
import json
import os
import subprocess
import sys
import time

V = os.path.dirname(os.path.dirname(os.path.abspath(__file__)))


def sh(cmd, **kw):
    p = subprocess.run(cmd, stdout=subprocess.PIPE, stderr=subprocess.STDOUT, **kw)
    return p.returncode, p.stdout.decode(errors='replace')


def main():
    names = sys.argv[1:] or sorted(os.path.basename(os.path.dirname(p)) for p in glob.glob(os.path.join(V, 'seeded', '*', 'meta.json')))
    assert sh(['git', '-C', '/repo', 'status', '--porcelain', '--untracked-files=no'])[1].strip() == '', '/repo not clean'
    head = sh(['git', '-C', '/repo', 'rev-parse', '--short', 'HEAD'])[1].strip()
    for name in names:
        d = os.path.join(V, 'seeded', name)
        meta = json.load(open(os.path.join(d, 'meta.json')))
        patch = os.path.join(d, 'patch.diff')
        rc, out = sh(['git', '-C', '/repo', 'apply', '--check', patch])
        if rc != 0:
            meta['in_repo'] = {'at_repo_commit': head, 'applies': False, 'note': 'patch no longer applies to the current HEAD (the code it '
                               'changes was rewritten by a later fix: commit); it stays confirmed at ' + str(meta['confirmed']['at_repo_commit'])}
            json.dump(meta, open(os.path.join(d, 'meta.json'), 'w'), indent=1)
            print(name, 'does not apply at', head)
            continue
        sh(['git', '-C', '/repo', 'apply', patch])
        try:
            t = time.time()
            rc_t, out_t = sh(['/venv/bin/python', '-m', 'pytest', '-q', '-p', 'no:cacheprovider', 'tests'], cwd='/repo')
            rc_d, out_d = sh(['/venv/bin/python', os.path.join(d, 'demo.py')], cwd='/repo', timeout=1800)
            env = dict(os.environ, VF_OUT_BASE='/tmp/vf_confirm')
            res = {}
            for c in meta['checks_run']:
                rc_c, out_c = sh([os.path.join(V, 'check'), c, '--tier', 'quick'], cwd=V, env=env)
                res[c] = {'exit': rc_c, 'lines': [l[:300] for l in out_c.split('\n') if l.startswith(('VIOLATION', '  mechanism'))][:4]}
        finally:
            sh(['git', '-C', '/repo', 'checkout', '--', '.'])
        meta['in_repo'] = {'at_repo_commit': head, 'applies': True, 'how': 'git -C /repo apply seeded/%s/patch.diff; ./check <id> --tier quick; git -C /repo checkout -- .' % name,
                           'existing_tests': out_t.strip().split('\n')[-1][:120], 'demo_exit_with_patch': rc_d, 'checks': res,
                           'caught': {c: r['exit'] == 1 for c, r in res.items()}, 'wall_s': round(time.time() - t)}
        json.dump(meta, open(os.path.join(d, 'meta.json'), 'w'), indent=1)
        print(name, 'tests:', meta['in_repo']['existing_tests'], '| demo exit', rc_d, '| caught', meta['in_repo']['caught'], flush=True)
    assert sh(['git', '-C', '/repo', 'status', '--porcelain', '--untracked-files=no'])[1].strip() == '', '/repo left dirty!'


if __name__ == '__main__':
    main()
