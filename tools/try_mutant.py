#!/usr/bin/env python3
"""Confirm a seeded change and run checks against it in its scratch worktree (COMA_REPO), never in /repo.
usage: tools/try_mutant.py <dir with patch.diff, demo.py> <worktree> [--confirm] [--checks C01,C02] [--tier quick]"""
import argparse
import json
import os
import subprocess
import sys
import time

V = os.path.dirname(os.path.dirname(os.path.abspath(__file__)))


def sh(cmd, cwd=None, env=None, timeout=3600):
    p = subprocess.run(cmd, cwd=cwd, env=env, stdout=subprocess.PIPE, stderr=subprocess.STDOUT, timeout=timeout)
    return p.returncode, p.stdout.decode(errors='replace')


def main():
    ap = argparse.ArgumentParser()
    ap.add_argument('mdir')
    ap.add_argument('wt')
    ap.add_argument('--confirm', action='store_true')
    ap.add_argument('--checks', default='')
    ap.add_argument('--tier', default='quick')
    ap.add_argument('--seed', default='0')
    a = ap.parse_args()
    patch = os.path.join(os.path.abspath(a.mdir), 'patch.diff')
    demo = os.path.join(os.path.abspath(a.mdir), 'demo.py')
    res = {'mutant': a.mdir}
    sh(['git', 'checkout', '--', '.'], cwd=a.wt)
    head = sh(['git', '-C', '/repo', 'rev-parse', 'HEAD'])[1].strip()
    sh(['git', 'checkout', '-q', '--detach', head], cwd=a.wt)      # scratch tree = /repo's current HEAD
    rc, out = sh(['git', 'status', '--porcelain', '--untracked-files=no'], cwd=a.wt)
    assert out.strip() == '', 'worktree not clean: ' + out
    if a.confirm:
        rc, out = sh(['/venv/bin/python', demo], cwd=a.wt, timeout=1800)
        res['demo_clean_rc'] = rc
        res['demo_clean_tail'] = out.strip().split('\n')[-1][:200]
    rc, out = sh(['git', 'apply', patch], cwd=a.wt)
    if rc != 0:
        print('PATCH DOES NOT APPLY', out)
        sys.exit(2)
    try:
        if a.confirm:
            rc, out = sh(['/venv/bin/python', '-m', 'pytest', '-q', '-p', 'no:cacheprovider', 'tests'], cwd=a.wt)
            res['tests_tail'] = out.strip().split('\n')[-1][:200]
            res['tests_rc'] = rc
            rc, out = sh(['/venv/bin/python', demo], cwd=a.wt, timeout=1800)
            res['demo_patched_rc'] = rc
            res['demo_patched_tail'] = out.strip().split('\n')[-3:]
        for c in [c for c in a.checks.split(',') if c]:
            t = time.time()
            env = dict(os.environ, COMA_REPO=a.wt, VERIF_SEED=a.seed)
            rc, out = sh([os.path.join(V, 'check'), c, '--tier', a.tier], cwd=V, env=env, timeout=7200)
            lines = [l for l in out.split('\n') if l.startswith(('VIOLATION', '  mechanism', 'INCONCLUSIVE', 'KNOWN'))]
            res[c] = {'rc': rc, 'wall': round(time.time() - t, 1), 'lines': [l[:400] for l in lines[:8]]}
    finally:
        sh(['git', 'checkout', '--', '.'], cwd=a.wt)
        # evidence / replay files written while testing a mutant are not evidence for the real tree
    print(json.dumps(res, indent=1))


if __name__ == '__main__':
    main()
