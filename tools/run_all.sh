#!/bin/sh
# usage: tools/run_all.sh [tier] [seed]  - runs every check sequentially, prints one line per check
tier=${1:-quick}; seed=${2:-0}
cd "$(dirname "$0")/.."
for i in 01 02 03 04 05 06 07 08 09 10 11 12 13 14 15 16 17 18 19 20; do
  s=$(date +%s)
  out=$(VERIF_SEED=$seed ./check C$i --tier $tier 2>&1); rc=$?
  e=$(date +%s)
  echo "C$i rc=$rc $((e-s))s $(echo "$out" | grep -E 'VIOLATION|INCONCLUSIVE' | head -3 | cut -c1-200 | tr '\n' '|')"
done
