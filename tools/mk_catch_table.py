#!/usr/bin/env python3
"""Prints the markdown table of seeded changes (DESIGN.md section 11.7) from seeded/*/meta.json."""
import glob
import json
import os

V = os.path.dirname(os.path.dirname(os.path.abspath(__file__)))
rows = []
for f in sorted(glob.glob(os.path.join(V, 'seeded', '*', 'meta.json'))):
    m = json.load(open(f))
    caught = [c for c, r in m['checks_run'].items() if r['caught']]
    missed = [c for c, r in m['checks_run'].items() if not r['caught']]
    mech = []
    for c in caught:
        for ln in m['checks_run'][c]['lines']:
            if 'mechanism=' in ln:
                mech.append(ln.split('mechanism=')[1].split(' ')[0])
                break
    inrepo = m.get('in_repo', {})
    ir = 'n/a'
    if inrepo:
        ir = ('caught ' + ','.join(c for c, v in inrepo.get('caught', {}).items() if v)) if inrepo.get('applies') else 'patch obsolete at HEAD'
    summ = (m.get('summary') or '').replace('|', '/').replace('\n', ' ')
    needs = (m.get('needs_to_manifest') or '').replace('|', '/').replace('\n', ' ')
    rows.append('| %s | %s | %s | %s | %s | %s |' % (m['name'], summ[:150] + ('...' if len(summ) > 150 else ''), needs[:130] + ('...' if len(needs) > 130 else ''),
                                                  ', '.join(caught) + (' (missed by: %s)' % ', '.join(missed) if missed else ''), '; '.join(mech)[:90], ir))
print('| change | what was changed | what it needs to manifest | caught by (quick tier) | reported mechanism | applied to /repo itself |')
print('|---|---|---|---|---|---|')
print('\n'.join(rows))
print()
print('%d seeded changes kept.' % len(rows))
