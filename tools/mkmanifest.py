#!/usr/bin/env python3
"""Regenerates /verif/MANIFEST.json from the table below (kept in one place so it is always schema-valid)."""
import json
import os

V = os.path.dirname(os.path.dirname(os.path.abspath(__file__)))
BASE = "cd /repo && /venv/bin/python -m pytest -ra -q -p no:cacheprovider --timeout=900 --continue-on-collection-errors tests"

# id -> (technique, level text, level note, design ref)
CHECKS = {
 'C01': ('runtime monitor: matching-validity oracle on every XMAP record, writer row, bus candidate and direct Aligner.align return; resolver trace classifies known mechanisms',
         'Exploration: the real composed pipeline and the real Aligner are executed on thousands of generated inputs (all modes, non-default parameters, hostile seed lists) while an independent oracle judges every record, candidate and return value; held on K observed executions, not a proof.',
         'Trusts the harness CMAP writer/parsers as ground truth and the M-serial substitution (cross-checked against M-pool). Known findings resolver-uncompared-neighbours / resolver-offset-label-lists are reported as KNOWN-FINDING by trace mechanism.',
         'DESIGN.md 5 C01'),
}
NOT_YET = 'check not built yet in this session (planned, see DESIGN.md section 5)'


def main():
    props = [json.loads(l)['id'] for l in open(os.path.join(V, 'properties.jsonl'))]
    checks = []
    for pid in props:
        if pid not in CHECKS:
            continue
        tech, text, note, ref = CHECKS[pid]
        checks.append({
            'property_id': pid,
            'quick_cmd': './check %s --tier quick' % pid,
            'thorough_cmd': './check %s --tier thorough' % pid,
            'evidence_file': 'evidence/%s.json' % pid,
            'replay_cmd_template': './check %s --replay {path}' % pid,
            'engine': 'vf',
            'level_claimed': {'category': 'exploration', 'text': text, 'design_ref': ref},
            'level_note': note,
            'technique': tech,
        })
    m = {
        'version': 1,
        'setup_cmd': "/venv/bin/python -c \"import sys; sys.path.insert(0, '/repo'); import numpy, scipy, pandas, p_tqdm, src.program, src.compare_alignments; print('setup ok')\"",
        'hooks': {'guard': 'COMA_VERIF', 'enable': 'no source hooks: all instrumentation is installed from the harness at run time (attribute wrappers, the repository\'s own Extension bus); COMA_VERIF=1 is exported by the harness but read by nothing in /repo',
                  'baseline_off_cmd': BASE, 'source_commits': [], 'add_only': True},
        'engines': [{'name': 'vf', 'path': 'vf/', 'serves_properties': [c['property_id'] for c in checks],
                     'kind_free_text': 'runtime monitoring: generated workloads run through the real code (in-process M-serial/M-pool and CLI subprocesses) with harness-installed monitors, independent text parsers, reference models and metamorphic comparisons; sharded over 16 subprocesses'}],
        'checks': checks,
        'not_applicable': [{'property_id': p, 'reason': NOT_YET} for p in props if p not in CHECKS],
        'notes': 'Every check: ./check <id> --tier quick|thorough [--seed N]; honours VERIF_SEED / VERIF_TIER; exit 0 held, 1 VIOLATION, 2 INCONCLUSIVE (deciding monitor not reached / watchdog). Known findings: KNOWN_FINDINGS.txt (read-only at run time).',
    }
    json.dump(m, open(os.path.join(V, 'MANIFEST.json'), 'w'), indent=1)
    print('wrote MANIFEST.json with', len(checks), 'checks')


if __name__ == '__main__':
    main()
