#!/usr/bin/env python3
"""Regenerates /verif/MANIFEST.json from the table below (kept in one place so it is always schema-valid)."""
import json
import os

V = os.path.dirname(os.path.dirname(os.path.abspath(__file__)))
BASE = "cd /repo && /venv/bin/python -m pytest -ra -q -p no:cacheprovider --timeout=900 --continue-on-collection-errors tests"

# id -> (technique, level text, level note, design ref)
CHECKS = {
 'C01': ('runtime monitor: matching-validity oracle on every XMAP record, writer row, bus candidate, direct Aligner.align return and direct first/second-pass join; resolver trace names the mechanism',
         'the real composed pipeline (M-serial + M-pool sample) and the real Aligner are executed on generated inputs (all modes, non-default parameters, long multi-indel molecules, hostile seed lists); an oracle on independently parsed CMAP text judges every record, writer row, candidate and return value',
         'trusts the harness CMAP writer/parsers and the M-serial substitution (callable pickled per task like the pool does; cross-checked against M-pool and, in C09, the CLI); no known finding is listed for C01 any more (the resolver defect was repaired in /repo)'),
 'C02': ('runtime monitor: field oracle on the text of every XMAP record vs independently parsed CMAP text',
         'every record of every file written by end-to-end runs (both strands, second-pass, joined, one-decimal coordinates, large offsets, first label at 0) is recomputed from the CMAP text alone',
         'only records that satisfy C01 are judged; QryLen accepted as last-first or last-first+1; 0.051 tolerance'),
 'C03': ('exhaustive small-scope enumeration + replay automaton monitor on cigarString / HitEnum',
         'all order-preserving matchings on label grids up to 7x7 (quick) / 9x9 (thorough), both strands, 1-3 segments, built with the real row classes, plus random large matchings and every end-to-end record; a replay automaton written from the statement must reproduce the pairs',
         'end-to-end records violating C01 are skipped'),
 'C04': ('runtime monitor: independent re-scoring of every writer row and bus candidate from raw maps, peak positions and the command-line parameters',
         'confidence of every row/candidate of end-to-end runs with pairwise distinct non-default -sp/-dp/-su/-d/-ms/-bs (zero values included) is recomputed from raw coordinates; offsets, accounting of every label inside a segment span and the written column are checked',
         'rows violating C01 skipped; labels coincident with a segment boundary are not "inside"'),
 'C05': ('runtime monitor over three executions per input: message-bus candidates and primary peaks vs file records',
         'separate/all/best runs of the same multi-reference input; InitialAlignment and candidate messages (tagged by pass) decide seed origin, candidate count, best-candidate selection, one record per query and best-mode id set/order',
         'exact confidence ties and peak-score ties at the cut are counted and skipped'),
 'C06': ('runtime monitor with planted ground truth',
         'exact copies of interior reference windows (both strands, arbitrary offsets/tails, near-origin windows, first label at 0) are planted per the quantifier; record, strand, pairs, HitEnum and |queryShift| <= 200 are checked against the generator\'s truth',
         'generator follows the quantifier literally (spacing >= 2 kb, mean >= 9 kb, >= 4 labels from the ends)'),
 'C07': ('runtime monitor on process boundary: exit status/exceptions of in-process and real CLI runs, strict file format, read-back by the project reader, isolation differential',
         'degenerate and hostile-parameter inputs (and long multi-indel molecules) through M-serial and the real CLI; aborts keyed by exception type and innermost repository frame; every file parsed strictly and read back with both pair parsers; ordinary queries compared with a run without the degenerate molecules',
         'CMAP well-formedness as written by the harness; md >= r1 as the property states'),
 'C08': ('differential monitor over four executions per input (all output modes) with writer-row classification',
         'the same input is run in best/separate/joined/all; file equalities, AlignedRest flags, partition of single-pass records, join eligibility (reference, strand, gap <= maxDifference incl. 0), subset and union clauses are checked from the file text',
         'finding join-overlap-resolved-by-trimming (the parts overlap and every missing pair lies in the overlapping stretch) is reported as KNOWN-FINDING; any other joined != union is a violation'),
 'C09': ('schedule perturbation: real CLI subprocesses with -c 1..16, repetitions, hash seeds, and in-worker seeded sleeps; byte comparison',
         'each input is executed 9 (quick) / 17 (thorough) times with different worker counts, PYTHONHASHSEED values and in-worker jitter that reorders completion; all files must be byte-identical apart from the argument echo; distinct completion orders are measured from worker-side logs',
         'jitter Extensions only sleep/log at existing dispatch points; same machine and input paths'),
 'C10': ('metamorphic monitor: base run vs permuted / restricted / filtered / extended / single-query runs',
         'seven relations per base input (permute+shuffle rows, remove queries, -qId, -rId, reversed reference rows, added queries, query alone), records compared per (file, query)',
         'all runs M-serial with one worker (shared state across queries is the hostile case); ids unique'),
 'C11': ('metamorphic monitor on lattice inputs: query vs mirror image in the same run',
         'lattice-commensurate references/queries (three resolution pairs, clean/noisy/indels, first label at 0, tails), -d below half the lattice step; first-pass records of q and mirror(q) must mirror each other incl. confidence',
         'exact confidence ties between different candidates are skipped and counted'),
 'C12': ('exhaustive small-scope enumeration + oracle written from the statement; wrapper on AlignerEngine.align end to end',
         'all label multisets on a small lattice x maxDistance x seeds x strands x fragment offsets (166k quick, >1M thorough), random tie-heavy maps, and every engine call of end-to-end runs (second-pass fragments included)',
         'reverse-strand coordinate convention length-1-position'),
 'C13': ('exhaustive small-scope enumeration vs executable model + clause predicates; wrapper on getSegments end to end',
         'all score sequences up to length 7/8 over a 6-symbol alphabet hitting every threshold equality x 7/11 (minScore, breakSegmentThreshold) pairs (2.3M quick), random float sequences, and every getSegments call of end-to-end runs',
         'float-valued drives tolerate comparisons within 1e-6 of equality (running sum vs re-summed value); the exact enumeration does not'),
 'C14': ('reference-model monitor: exhaustive 2^n subset enumeration against SegmentChainer.chain; coordinate overlap rule against every getScore',
         'synthetic segment sets on coordinate grids (both strands, both join variants, multipliers incl. 0 and 0.1) and real chain calls captured during hostile direct drives and end-to-end runs; optimality by subset enumeration (n<=8/10), admissibility and -inf rule from coordinates',
         'tied diagonal keys skipped for the optimality clause; multiplier >= 0'),
 'C15': ('trace monitor on resolveConflicts / checkForConflicts with identity lineage',
         'per resolver call the chain, identity and score of every position, every comparison and the output are recorded during hostile direct drives of the real Aligner and end-to-end runs; clauses (a) contiguous sub-run, (b) no re-scoring, (c) no shared/crossing label, (d) protected pairs kept',
         'every clause has no known exception any more (the resolver defect was repaired in /repo); mechanisms are still named from the trace'),
 'C16': ('exhaustive small-scope enumeration of vectorise/blur/bin-to-bp; wrappers on find_peaks/getInitialAlignment/selectPeaks end to end',
         '593k vectorise cases, all bit vectors up to 8/12 bits x radius 0-3, bin centres for resolutions 1-11 (+100..1500), random peak lists, and end-to-end recomputation of every primary peak score and of the top-peaksCount selection',
         'bits beyond `end` checked for exactness only; ties between equal scores free'),
 'C17': ('reference-model monitor: generator dictionary vs CmapReader; trim invariants; Program\'s maps vs independent text parser',
         'random CMAP files (shuffled rows, permuted/extra columns, unlabelled molecules, huge ids, filters with unknown ids) and the maps Program actually used end to end',
         'empty id filter means all molecules'),
 'C18': ('round-trip monitor: XmapReader.readAlignments on every file COMA wrote vs independent text parse',
         'files from ordinary, degenerate (header-only, one record) and long-molecule runs in all modes are read back with both pair parsers; ids, strand, HitEnum, pairs, truncated coordinates/lengths, confidence and pair coordinates compared',
         'records with out-of-range labels skipped for the coordinate clause'),
 'C19': ('invariant monitor on AlignmentComparer.compare(A,B), (B,A), (A,A)',
         'random alignment-set pairs with repeated keys, empty and duplicated-label pair lists, both combine modes, plus real COMA output vs the bundled RefAligner XMAP; partition, bounds, reflexivity and swap clauses',
         'identity is not required to be symmetric (difflib)'),
 'C20': ('conservation monitor on cluster_indels / write_indel_file; self-consistency monitor on both indel finders',
         'random sorted call lists (multi-chromosome, near the blur distance, repeated ids), written files parsed back, synthetic drives of both look_for_indels_in_breakage functions and the molecule_indels flow on real all-mode output',
         'exceptions inside the sv scripts on harvested inputs count as not applicable'),
}
NOT_YET = 'check not built yet in this session (planned, see DESIGN.md section 5)'


def main():
    props = [json.loads(l)['id'] for l in open(os.path.join(V, 'properties.jsonl'))]
    checks = []
    for pid in props:
        if pid not in CHECKS:
            continue
        tech, text, note = CHECKS[pid]
        ref = 'DESIGN.md section 5 ' + pid
        text = 'Exploration (runtime monitoring): ' + text + '. Verdict = held on the K executions observed (counts in the evidence file), not a proof.'
        checks.append({
            'property_id': pid,
            'quick_cmd': './check %s --tier quick' % pid,
            'thorough_cmd': './check %s --tier thorough' % pid,
            'evidence_file': 'evidence/%s.json' % pid,
            'replay_cmd_template': './check %s --replay {path}' % pid,
            'engine': 'vf',
            'level_claimed': {'category': 'exploration', 'text': text, 'design_ref': ref},
            'level_note': note,
            'technique': tech,
        })
    m = {
        'version': 1,
        'setup_cmd': "/venv/bin/python -c \"import sys; sys.path.insert(0, '/repo'); import numpy, scipy, pandas, p_tqdm, dill, src.program, src.compare_alignments; print('setup ok')\"",
        'hooks': {'guard': 'COMA_VERIF', 'enable': 'no source hooks: all instrumentation is installed from the harness at run time (attribute wrappers, the repository\'s own Extension bus); COMA_VERIF=1 is exported by the harness but read by nothing in /repo',
                  'baseline_off_cmd': BASE, 'source_commits': [], 'add_only': True},
        'engines': [{'name': 'vf', 'path': 'vf/', 'serves_properties': [c['property_id'] for c in checks],
                     'kind_free_text': 'runtime monitoring: generated workloads run through the real code (in-process M-serial/M-pool and CLI subprocesses) with harness-installed monitors, independent text parsers, reference models and metamorphic comparisons; sharded over 16 subprocesses'}],
        'checks': checks,
        'not_applicable': [{'property_id': p, 'reason': NOT_YET} for p in props if p not in CHECKS],
        'notes': 'Every check: ./check <id> --tier quick|thorough [--seed N]; honours VERIF_SEED / VERIF_TIER; exit 0 held, 1 VIOLATION, 2 INCONCLUSIVE (deciding monitor not reached / watchdog). Known findings: KNOWN_FINDINGS.txt (read-only at run time).',
    }
    json.dump(m, open(os.path.join(V, 'MANIFEST.json'), 'w'), indent=1)
    print('wrote MANIFEST.json with', len(checks), 'checks')


if __name__ == '__main__':
    main()
