#!/usr/bin/env python3
"""Cross matrix: run ALL quick checks against a selection of seeded changes (each applied in a scratch worktree,
COMA_REPO) and record which checks report a VIOLATION.  usage: tools/cross_matrix.py <worktree> <out.json> name [name ...]"""
import json
import os
import subprocess
import sys
import time

V = os.path.dirname(os.path.dirname(os.path.abspath(__file__)))
ALL = ['C%02d' % i for i in range(1, 21)]


def sh(cmd, **kw):
    p = subprocess.run(cmd, stdout=subprocess.PIPE, stderr=subprocess.STDOUT, **kw)
    return p.returncode, p.stdout.decode(errors='replace')


def main():
    wt, outp, names = sys.argv[1], sys.argv[2], sys.argv[3:]
    res = json.load(open(outp)) if os.path.exists(outp) else {}
    head = sh(['git', '-C', '/repo', 'rev-parse', 'HEAD'])[1].strip()
    for name in names:
        if name in res:
            continue
        patch = os.path.join(V, 'seeded', name, 'patch.diff')
        sh(['git', 'checkout', '--', '.'], cwd=wt)
        sh(['git', 'checkout', '-q', '--detach', head], cwd=wt)
        if sh(['git', 'apply', patch], cwd=wt)[0] != 0:
            res[name] = 'patch does not apply at HEAD'
            continue
        row = {}
        for c in ALL:
            t = time.time()
            rc, out = sh([os.path.join(V, 'check'), c, '--tier', 'quick'], cwd=V, env=dict(os.environ, COMA_REPO=wt))
            mech = [l.split('mechanism=')[1].split(' ')[0] for l in out.split('\n') if 'mechanism=' in l][:2]
            row[c] = {'exit': rc, 'mechanisms': mech, 'wall': round(time.time() - t)}
            print(name, c, rc, mech, flush=True)
        sh(['git', 'checkout', '--', '.'], cwd=wt)
        res[name] = row
        json.dump(res, open(outp, 'w'), indent=1)


if __name__ == '__main__':
    main()
